"""Load-time dissolution of small private-style helpers into their callers.

Why: the rules reason about a handful of *anchor* functions (the restructuring steps, the block API, the
front ends, the readers / writers).  "Extract a helper" is the most common behaviour-preserving refactor;
without this pass the statements a rule needs to see would vanish from the anchor function and the rule
would report an unknown shape (or worse, a missing step).  A helper is a function or method that

  * is private by convention (one leading underscore) and not an anchor: its name occurs in no string
    constant of the checker's own sources, the audit table or the known-findings file (the rules name
    every function they reason about);
  * is not subject to dynamic dispatch (a method name defined in exactly one class), is not decorated,
    not a generator, not recursive, has no nested definitions, no `global` / `nonlocal`, no star parameters;
  * has a *simple body*: a single `return <expr>` (expression helper) or straight-line / structured
    statements whose only `return` is the last statement of the body (statement helper).

Each call `H(..)` / `self.H(..)` in the same module (same class for methods) at an inlinable position is
replaced by the body with parameters substituted and locals renamed (`<local>__i<n>`); when the result is
bound to plain names (`a, b = H(..)`) the returned locals take those names directly, so that
`succs, preds = _edge_tables(g)` reads exactly like the code it was extracted from.  A helper all of whose
references were inlined is removed from the tree (its statements are analysed where they run); otherwise it
stays and is analysed as a function of its own as well.  Line numbers of inlined statements stay those of
the helper, so reports point at the real source line.

This is a normal form for the analysis only: evaluation order of argument expressions is not preserved
exactly (arguments that are not plain names / attribute chains / constants are bound to a temporary first,
in order).  Nothing here decides a property."""
from __future__ import annotations

import ast
import copy
import os
import re
from typing import Dict, List, Optional, Set, Tuple

_FUNC = (ast.FunctionDef, ast.AsyncFunctionDef)
_ANCHOR_CACHE: Optional[Set[str]] = None
_WHOLE_CACHE: Optional[Set[str]] = None


def whole_string_names() -> Set[str]:
    """function names the rules look functions up by: string arguments of the model's lookup functions
    (`find_function("update_exiting")`, `find_method(..)`, `method_calls(node, "add_block")` ..) and strings
    compared with a callee / method name (`c.func.attr == "extract_region"`, `.name in ("a", "b")`)"""
    global _WHOLE_CACHE
    if _WHOLE_CACHE is not None:
        return _WHOLE_CACHE
    out: Set[str] = set()
    root = os.path.dirname(os.path.abspath(__file__))
    lookups = {"function", "find_function", "find_method", "fn", "_fn", "_scfg_method", "method_calls", "calls_named", "get"}

    def strs(e):
        if isinstance(e, ast.Constant) and isinstance(e.value, str):
            return [e.value]
        if isinstance(e, (ast.Tuple, ast.Set, ast.List)):
            return [x.value for x in e.elts if isinstance(x, ast.Constant) and isinstance(x.value, str)]
        return []

    for dp, dn, fns in os.walk(root):
        dn[:] = [d for d in dn if d != "__pycache__"]
        for fn in fns:
            if not fn.endswith(".py") or fn in ("mutants.py", "inline.py"):
                continue
            try:
                tree = ast.parse(open(os.path.join(dp, fn), encoding="utf-8").read())
            except SyntaxError:
                continue
            for n in ast.walk(tree):
                if isinstance(n, ast.Call):
                    f = n.func
                    nm = f.attr if isinstance(f, ast.Attribute) else (f.id if isinstance(f, ast.Name) else "")
                    if nm in lookups:
                        for a in n.args:
                            for v in strs(a):
                                out.update(p_ for p_ in v.split(".") if re.fullmatch(r"[A-Za-z_][A-Za-z0-9_]*", p_))
                elif isinstance(n, ast.Compare) and len(n.ops) == 1 and isinstance(n.ops[0], (ast.Eq, ast.NotEq, ast.In, ast.NotIn)):
                    sides = [n.left, n.comparators[0]]
                    txt = [ast.unparse(x) for x in sides]
                    for i_ in (0, 1):
                        if txt[i_].endswith((".attr", ".name", "[-1]", ".id", "mname", "fname")):
                            for v in strs(sides[1 - i_]):
                                if re.fullmatch(r"[A-Za-z_][A-Za-z0-9_]*", v):
                                    out.add(v)
                elif isinstance(n, ast.Subscript) and isinstance(n.slice, ast.Constant) and isinstance(n.slice.value, str) and ast.unparse(n.value).endswith("methods"):
                    out.add(n.slice.value)
    _WHOLE_CACHE = out
    return out


def anchor_names() -> Set[str]:
    """identifiers that occur inside string constants of the checker's sources"""
    global _ANCHOR_CACHE
    if _ANCHOR_CACHE is not None:
        return _ANCHOR_CACHE
    out: Set[str] = set()
    root = os.path.dirname(os.path.abspath(__file__))
    for dp, dn, fns in os.walk(root):
        dn[:] = [d for d in dn if d != "__pycache__"]
        for fn in fns:
            if not fn.endswith(".py") or fn in ("mutants.py", "inline.py"):
                continue
            try:
                tree = ast.parse(open(os.path.join(dp, fn), encoding="utf-8").read())
            except SyntaxError:
                continue
            for n in ast.walk(tree):
                if isinstance(n, ast.Constant) and isinstance(n.value, str) and len(n.value) < 200:
                    out.update(re.findall(r"[A-Za-z_][A-Za-z0-9_]*", n.value))
    # the audit table and the known-findings file key their entries by function name as well
    base = os.path.dirname(root)
    for rel in ("audit/exceptions.json", "known_findings.txt"):
        try:
            out.update(re.findall(r"[A-Za-z_][A-Za-z0-9_]*", open(os.path.join(base, rel), encoding="utf-8").read()))
        except OSError:
            pass
    _ANCHOR_CACHE = out
    return out


def _private(name: str) -> bool:
    """private by convention: one leading underscore (public functions are API and stay what they are)"""
    return name.startswith("_") and not name.startswith("__")


class _Helper:
    def __init__(self, node: ast.FunctionDef, cls: Optional[ast.ClassDef], kind: str) -> None:
        self.node = node
        self.cls = cls
        self.static = any(isinstance(d, ast.Name) and d.id == "staticmethod" for d in node.decorator_list)
        self.kind = kind  # 'expr' | 'stmts'
        self.inlined = 0


def _simple_arg(e: ast.AST) -> bool:
    if isinstance(e, (ast.Name, ast.Constant)):
        return True
    if isinstance(e, ast.Attribute):
        return _simple_arg(e.value)
    return False


def _pure_arith(e: ast.AST) -> bool:
    """an expression over plain names and constants (`index + 1`, `-n`, `(a, b)`): its value cannot change
    while the helper's body runs, so it may be substituted for the parameter wherever that is read"""
    if isinstance(e, (ast.Name, ast.Constant)):
        return True
    if isinstance(e, ast.BinOp):
        return _pure_arith(e.left) and _pure_arith(e.right)
    if isinstance(e, ast.UnaryOp):
        return _pure_arith(e.operand)
    if isinstance(e, ast.Tuple):
        return all(_pure_arith(x) for x in e.elts)
    return False


def _own_nodes(fn: ast.AST):
    """nodes of the function body, not descending into nested scopes (lambdas / comprehensions are walked:
    their variables are handled by renaming)"""
    stack = list(ast.iter_child_nodes(fn))
    while stack:
        n = stack.pop()
        yield n
        if isinstance(n, _FUNC + (ast.ClassDef,)):
            continue
        stack.extend(ast.iter_child_nodes(n))


_PURE_CALLS = {"len", "isinstance", "type", "tuple", "frozenset", "min", "max", "sorted", "bool", "int", "str", "repr", "id", "hasattr", "getattr", "callable", "issubclass"}


def _pure_read(e: ast.AST) -> bool:
    """an expression that only reads: names, attributes, subscripts, comparisons, boolean and arithmetic
    operators, and the handful of builtins that do not advance or change their argument (`next` only of a
    fresh `iter(..)`).  Evaluating it twice in a row gives the same value both times."""
    for n in ast.walk(e):
        if isinstance(n, ast.Call):
            f = n.func
            if isinstance(f, ast.Name) and f.id in _PURE_CALLS and not n.keywords:
                continue
            if isinstance(f, ast.Name) and f.id == "next" and n.args and isinstance(n.args[0], ast.Call) \
                    and isinstance(n.args[0].func, ast.Name) and n.args[0].func.id == "iter" and len(n.args[0].args) == 1:
                continue
            if isinstance(f, ast.Name) and f.id == "iter" and len(n.args) == 1:
                continue
            return False
        if isinstance(n, (ast.NamedExpr, ast.Yield, ast.YieldFrom, ast.Await, ast.Lambda, ast.ListComp, ast.SetComp,
                          ast.DictComp, ast.GeneratorExp, ast.Starred)):
            return False
    return True


def _fold_to_expression(fn: ast.FunctionDef) -> bool:
    """`t = <read>; ...; return <expr over t>`  ->  `return <expr>` with the temporaries substituted, so that a
    helper used as an operand of `or` / `and` / a conditional expression can be read through where it stands.
    Only when every temporary is bound once to an expression that only reads."""
    body = list(fn.body)
    if body and isinstance(body[0], ast.Expr) and isinstance(body[0].value, ast.Constant) and isinstance(body[0].value.value, str):
        body = body[1:]
    if len(body) < 2 or len(body) > 4 or not isinstance(body[-1], ast.Return) or body[-1].value is None:
        return False
    params = {a.arg for a in fn.args.args + fn.args.kwonlyargs}
    env: Dict[str, ast.expr] = {}
    for st in body[:-1]:
        if isinstance(st, ast.AnnAssign) and st.value is not None and isinstance(st.target, ast.Name):
            tgt, val = st.target, st.value
        elif isinstance(st, ast.Assign) and len(st.targets) == 1 and isinstance(st.targets[0], ast.Name):
            tgt, val = st.targets[0], st.value
        else:
            return False
        if tgt.id in params or tgt.id in env or not _pure_read(val):
            return False
        env[tgt.id] = _subst_names(val, env)
    ret = _subst_names(body[-1].value, env)
    fn.body = [ast.copy_location(ast.Return(value=ret), body[-1])]
    return True


def _subst_names(e: ast.expr, env: Dict[str, ast.expr]) -> ast.expr:
    if not env:
        return copy.deepcopy(e)

    class _S(ast.NodeTransformer):
        def visit_Name(self, n: ast.Name):
            if isinstance(n.ctx, ast.Load) and n.id in env:
                return copy.deepcopy(env[n.id])
            return n

    return _S().visit(copy.deepcopy(e))


def _classify(fn: ast.FunctionDef) -> Optional[str]:
    if isinstance(fn, ast.AsyncFunctionDef) or any(not (isinstance(d, ast.Name) and d.id == "staticmethod") for d in fn.decorator_list):
        return None
    a = fn.args
    if a.vararg or a.kwarg or a.posonlyargs:
        return None
    body = list(fn.body)
    if body and isinstance(body[0], ast.Expr) and isinstance(body[0].value, ast.Constant) and isinstance(body[0].value.value, str):
        body = body[1:]
    if not body:
        return None
    for n in _own_nodes(fn):
        if isinstance(n, (ast.Yield, ast.YieldFrom, ast.Await, ast.Global, ast.Nonlocal, ast.Lambda) + _FUNC + (ast.ClassDef,)):
            return None
        if isinstance(n, ast.Call) and isinstance(n.func, ast.Name) and n.func.id in ("locals", "vars", "super"):
            return None
    returns = [n for n in _own_nodes(fn) if isinstance(n, ast.Return)]
    if len(body) == 1 and isinstance(body[0], ast.Return) and body[0].value is not None:
        return "expr"
    if len(body) > 40:
        return None
    if any(r is not body[-1] for r in returns):
        # early returns are fine when they sit in plain if/else nesting (not inside a loop, with or try):
        # they are turned into assignments to a result variable (see _eliminate_returns)
        if _eliminate_returns(body, "result__probe") is None:
            return None
    return "stmts"


def _has_return(stmts) -> bool:
    for s_ in stmts:
        for n in ast.walk(s_):
            if isinstance(n, ast.Return):
                return True
    return False


def _always_returns(stmts) -> bool:
    if not stmts:
        return False
    last = stmts[-1]
    if isinstance(last, (ast.Return, ast.Raise)):
        return True
    if isinstance(last, ast.If) and last.orelse:
        return _always_returns(last.body) and _always_returns(last.orelse)
    return False


def _eliminate_returns(stmts, rv: str):
    """the statement list with every `return e` replaced by `rv = e`, early returns turned into if/else
    nesting; None when a return sits inside a loop / with / try (not expressible without a flag)"""
    out = []
    for i, st in enumerate(stmts):
        if isinstance(st, ast.Return):
            val = st.value if st.value is not None else ast.Constant(value=None)
            out.append(ast.copy_location(ast.Assign(targets=[ast.Name(id=rv, ctx=ast.Store())], value=val, lineno=st.lineno), st))
            return out
        if isinstance(st, ast.If) and _has_return([st]):
            rest = list(stmts[i + 1:])
            b_leaves, e_leaves = _always_returns(st.body), _always_returns(st.orelse)
            nb = _eliminate_returns(list(st.body) + ([] if b_leaves else copy.deepcopy(rest)), rv)
            ne = _eliminate_returns(list(st.orelse) + ([] if e_leaves else copy.deepcopy(rest)), rv)
            if nb is None or ne is None:
                return None
            new_if = ast.copy_location(ast.If(test=st.test, body=nb or [ast.Pass()], orelse=ne), st)
            out.append(new_if)
            return out
        if _has_return([st]):
            return None
        out.append(st)
    # fell off the end: the function returns None
    out.append(ast.Assign(targets=[ast.Name(id=rv, ctx=ast.Store())], value=ast.Constant(value=None), lineno=getattr(stmts[-1], "lineno", 0) if stmts else 0))
    return out


def _calls_name(fn: ast.AST, name: str) -> bool:
    for n in ast.walk(fn):
        if isinstance(n, ast.Call):
            f = n.func
            if isinstance(f, ast.Name) and f.id == name:
                return True
            if isinstance(f, ast.Attribute) and f.attr == name:
                return True
    return False


def _bind(fn: ast.FunctionDef, call: ast.Call, is_method: bool) -> Optional[Dict[str, ast.AST]]:
    params = [p.arg for p in fn.args.args]
    if is_method:
        if not params:
            return None
        params = params[1:]
    kwonly = [p.arg for p in fn.args.kwonlyargs]
    out: Dict[str, ast.AST] = {}
    if any(isinstance(x, ast.Starred) for x in call.args) or any(k.arg is None for k in call.keywords):
        return None
    if len(call.args) > len(params):
        return None
    for p, v in zip(params, call.args):
        out[p] = v
    for k in call.keywords:
        if k.arg in out or k.arg not in params + kwonly:
            return None
        out[k.arg] = k.value
    defaults = fn.args.defaults
    for p, d in zip(params[len(params) - len(defaults):], defaults):
        out.setdefault(p, d)
    for p, d in zip(kwonly, fn.args.kw_defaults):
        if d is not None:
            out.setdefault(p, d)
    if any(p not in out for p in params + kwonly):
        return None
    return out


class _Subst(ast.NodeTransformer):
    def __init__(self, names: Dict[str, ast.AST], rename: Dict[str, str]) -> None:
        self.names = names
        self.rename = rename

    def visit_Name(self, n: ast.Name) -> ast.AST:
        if n.id in self.rename:
            return ast.copy_location(ast.Name(id=self.rename[n.id], ctx=n.ctx), n)
        if n.id in self.names and isinstance(n.ctx, ast.Load):
            new = copy.deepcopy(self.names[n.id])
            return new
        return n


def _stored_names(fn: ast.AST) -> Set[str]:
    out: Set[str] = set()
    for n in _own_nodes(fn):
        if isinstance(n, ast.Name) and isinstance(n.ctx, (ast.Store, ast.Del)):
            out.add(n.id)
        elif isinstance(n, ast.ExceptHandler) and n.name:
            out.add(n.name)
        elif isinstance(n, ast.alias):
            out.add((n.asname or n.name).split(".")[0])
    return out


def _names_used(node: ast.AST) -> Set[str]:
    return {n.id for n in ast.walk(node) if isinstance(n, ast.Name)}


def _helper_body(fn: ast.FunctionDef) -> List[ast.stmt]:
    body = list(fn.body)
    if body and isinstance(body[0], ast.Expr) and isinstance(body[0].value, ast.Constant) and isinstance(body[0].value.value, str):
        body = body[1:]
    return body


def _expand(h: _Helper, call: ast.Call, caller: ast.AST, targets: Optional[ast.AST], want: str) -> Optional[Tuple[List[ast.stmt], Optional[ast.AST]]]:
    """(statements to insert, expression that replaces the call or None).  want: 'expr' | 'stmt' | 'assign' | 'return'"""
    fn = h.node
    is_method = h.cls is not None and not h.static
    if is_method and not isinstance(call.func, ast.Attribute):
        return None
    binding = _bind(fn, call, is_method)
    if binding is None:
        return None
    stored = _stored_names(fn)
    body = _helper_body(fn)
    # neutral suffix: the helper's own name must not leak into local names (text matches on names)
    suffix = "__i%d" % (sum(map(ord, fn.name)) % 97)
    caller_names = _names_used(caller)
    names: Dict[str, ast.AST] = {}
    rename: Dict[str, str] = {}
    pre: List[ast.stmt] = []
    if is_method:
        self_name = fn.args.args[0].arg
        recv = call.func.value  # type: ignore[attr-defined]
        if self_name in stored:
            return None
        names[self_name] = recv
    uses: Dict[str, int] = {}
    for n in _own_nodes(fn):
        if isinstance(n, ast.Name):
            uses[n.id] = uses.get(n.id, 0) + 1
    for p, v in binding.items():
        if p not in stored and (_simple_arg(v) or uses.get(p, 0) <= 1 and h.kind == "expr" or _pure_arith(v) and uses.get(p, 0) <= 2):
            names[p] = v
        elif p not in stored and uses.get(p, 0) == 0:
            if any(isinstance(x, ast.Call) for x in ast.walk(v)):
                pre.append(ast.copy_location(ast.Expr(value=copy.deepcopy(v)), call))
        else:
            if h.kind == "expr" and want == "expr":
                return None
            new = p + suffix
            rename[p] = new
            pre.append(ast.copy_location(ast.Assign(targets=[ast.Name(id=new, ctx=ast.Store())], value=copy.deepcopy(v), lineno=call.lineno), call))
    # locals (and comprehension variables): fresh names - but not what a function-level import binds: the import
    # comes along with the body and binds the same object under the same name in the caller
    imported = {(a.asname or a.name).split(".")[0] for n in _own_nodes(fn) if isinstance(n, (ast.Import, ast.ImportFrom)) for a in n.names}
    only_imported = {s for s in imported if not any(isinstance(n, ast.Name) and n.id == s and isinstance(n.ctx, (ast.Store, ast.Del)) for n in _own_nodes(fn))}
    for s in stored:
        if s not in rename and s not in binding and s not in only_imported:
            rename[s] = s + suffix
    for n in _own_nodes(fn):
        if isinstance(n, ast.comprehension):
            for t in ast.walk(n.target):
                if isinstance(t, ast.Name) and t.id not in rename:
                    rename[t.id] = t.id + suffix
    if h.kind == "expr":
        ret = body[0].value  # type: ignore[attr-defined]
        e = _Subst(names, rename).visit(copy.deepcopy(ret))
        return pre, e
    if want == "expr":
        return None
    stmts = body
    ret_expr: Optional[ast.AST] = None
    early = [n for n in _own_nodes(fn) if isinstance(n, ast.Return) and n is not body[-1]]
    if early:
        rv = "result" + suffix
        elim = _eliminate_returns(copy.deepcopy(body), rv)
        if elim is None:
            return None
        stmts = elim
        ret_expr = ast.Name(id=rv, ctx=ast.Load())
        stored = stored | {rv}
    elif stmts and isinstance(stmts[-1], ast.Return):
        ret_expr = stmts[-1].value
        stmts = stmts[:-1]
    # `T = H(<expr>, ..)` where H re-binds its parameter P and returns something rooted at P
    # (`block = block.replace_..(); return block.replace_..()`): P is read as T, so that the object keeps one
    # name through the caller
    if want == "assign" and isinstance(targets, ast.Name) and ret_expr is not None and not early:
        root = ret_expr
        while isinstance(root, (ast.Call, ast.Attribute, ast.Subscript)):
            root = root.func if isinstance(root, ast.Call) else root.value
        if isinstance(root, ast.Name) and root.id in rename and root.id in binding and rename[root.id] == root.id + suffix and targets.id not in stored:
            newn = targets.id
            old_tmp = rename[root.id]
            rename[root.id] = newn
            for st_ in pre:
                if isinstance(st_, ast.Assign) and isinstance(st_.targets[0], ast.Name) and st_.targets[0].id == old_tmp:
                    st_.targets[0].id = newn
    # returned locals take the names of the assignment targets
    if want == "assign" and targets is not None and ret_expr is not None:
        pairs: List[Tuple[str, str]] = []
        if isinstance(targets, ast.Name) and isinstance(ret_expr, ast.Name):
            pairs = [(ret_expr.id, targets.id)]
        elif isinstance(targets, ast.Tuple) and isinstance(ret_expr, ast.Tuple) and len(targets.elts) == len(ret_expr.elts) and all(isinstance(x, ast.Name) for x in targets.elts + ret_expr.elts):
            pairs = [(r.id, t.id) for r, t in zip(ret_expr.elts, targets.elts)]  # type: ignore[attr-defined]
        srcs = [a for a, _ in pairs]
        dsts = [b for _, b in pairs]
        ok = bool(pairs) and len(set(srcs)) == len(srcs) and len(set(dsts)) == len(dsts)
        for a, b in pairs:
            # the returned name must be a local of the helper that is not a parameter, and the target must not
            # be read by the argument expressions (it would be clobbered early)
            if a not in stored or a in binding or any(b in _names_used(v) for v in binding.values()):
                ok = False
        if ok:
            for a, b in pairs:
                rename[a] = b
            ret_expr = None
            targets = None
    sub = _Subst(names, rename)
    new_body = [sub.visit(copy.deepcopy(s)) for s in stmts]
    out = pre + new_body
    result: Optional[ast.AST] = None
    if ret_expr is not None:
        result = sub.visit(copy.deepcopy(ret_expr))
    return out, result


def _inline_in_function(caller: ast.AST, helpers: Dict[Tuple[Optional[str], str], _Helper], cls_name: Optional[str], new_helpers: Optional[Dict[str, _Helper]] = None, used: Optional[Set[str]] = None) -> int:
    """one pass over the statement lists of `caller`; returns the number of call sites replaced.
    new_helpers: package-wide table of helpers that the audited tree does not define (see inline_helpers);
    used: receives the names of those that were expanded into this caller"""
    count = 0
    new_helpers = new_helpers or {}

    def lookup(call: ast.Call) -> Optional[_Helper]:
        h_ = lookup0(call)
        if h_ is not None and used is not None:
            for k_ in (h_.node.name, (cls_name or "") + "." + h_.node.name):
                if new_helpers.get(k_) is h_:
                    used.add(k_)
        return h_

    def lookup0(call: ast.Call) -> Optional[_Helper]:
        f = call.func
        if isinstance(f, ast.Name):
            h_ = helpers.get((None, f.id))
            if h_ is None:
                h_ = new_helpers.get(f.id)
                if h_ is not None and h_.cls is not None and not h_.static:
                    h_ = None
            return h_
        if isinstance(f, ast.Attribute) and isinstance(f.value, ast.Name) and f.value.id == "self" and cls_name is not None:
            h_ = helpers.get((cls_name, f.attr))
            if h_ is None:
                # a method new to the tree called on self inside its own class: no other receiver type in play
                h_ = new_helpers.get(cls_name + "." + f.attr)
            if h_ is not None:
                return h_
        if isinstance(f, ast.Attribute) and isinstance(f.value, ast.Name):
            # ClassName.helper(..) for a static helper
            h_ = helpers.get((f.value.id, f.attr))
            if h_ is not None and h_.static:
                return h_
        if isinstance(f, ast.Attribute) and f.attr in new_helpers and _simple_arg(f.value):
            # a definition new to the tree, unique in the package: `module.helper(..)`, `Class.static(..)` or
            # `obj.method(..)` (the receiver is bound to the method's first parameter)
            return new_helpers[f.attr]
        return None

    def expr_sites(node: ast.AST) -> None:
        """replace calls of expression helpers anywhere inside `node` (in place)"""
        nonlocal count
        for parent in list(ast.walk(node)):
            if isinstance(parent, _FUNC + (ast.ClassDef,)) and parent is not node:
                continue
            for fld, val in ast.iter_fields(parent):
                if isinstance(val, ast.Call):
                    h = lookup(val)
                    if h is not None and h.kind == "expr" and h.node is not caller:
                        r = _expand(h, val, caller, None, "expr")
                        if r is not None and not r[0]:
                            setattr(parent, fld, ast.copy_location(r[1], val))
                            h.inlined += 1
                            count += 1
                elif isinstance(val, list):
                    for i, v in enumerate(val):
                        if isinstance(v, ast.Call):
                            h = lookup(v)
                            if h is not None and h.kind == "expr" and h.node is not caller:
                                r = _expand(h, v, caller, None, "expr")
                                if r is not None and not r[0]:
                                    val[i] = ast.copy_location(r[1], v)
                                    h.inlined += 1
                                    count += 1

    def do_list(seq: List[ast.stmt]) -> None:
        nonlocal count
        i = 0
        while i < len(seq):
            st = seq[i]
            if isinstance(st, _FUNC + (ast.ClassDef,)):
                i += 1
                continue
            site: Optional[ast.Call] = None
            want = ""
            targets: Optional[ast.AST] = None
            if isinstance(st, ast.Expr) and isinstance(st.value, ast.Call):
                site, want = st.value, "stmt"
            elif isinstance(st, ast.Assign) and len(st.targets) == 1 and isinstance(st.value, ast.Call):
                site, want, targets = st.value, "assign", st.targets[0]
            elif isinstance(st, ast.AnnAssign) and st.value is not None and isinstance(st.value, ast.Call) and isinstance(st.target, ast.Name):
                site, want, targets = st.value, "assign", st.target
            elif isinstance(st, ast.Return) and isinstance(st.value, ast.Call):
                site, want = st.value, "return"
            elif isinstance(st, ast.If) and isinstance(st.test, ast.Call):
                site, want = st.test, "test"
            elif isinstance(st, ast.For) and isinstance(st.iter, ast.Call):
                site, want = st.iter, "iter"
            h = lookup(site) if site is not None else None
            if h is not None and h.kind == "stmts" and h.node is not caller:
                r = _expand(h, site, caller, targets, "assign" if want == "assign" else "stmt")
                if r is not None:
                    stmts, result = r
                    repl: List[ast.stmt] = list(stmts)
                    if want == "stmt":
                        if result is not None and any(isinstance(x, ast.Call) for x in ast.walk(result)):
                            repl.append(ast.copy_location(ast.Expr(value=result), st))
                    elif want == "assign":
                        if result is not None or not _renamed_into(targets, stmts):
                            val = result if result is not None else (None if _renamed_into(targets, stmts) else ast.Constant(value=None))
                            if val is not None:
                                new = copy.copy(st)
                                new.value = val  # type: ignore[attr-defined]
                                repl.append(new)
                    elif want == "return":
                        new = copy.copy(st)
                        new.value = result  # type: ignore[attr-defined]
                        repl.append(new)
                    elif want in ("test", "iter"):
                        if result is None:
                            result = ast.Constant(value=None)
                        tmp = "result__i%d" % (sum(map(ord, h.node.name)) % 97)
                        if isinstance(result, (ast.Name, ast.Constant)):
                            val2: ast.AST = result
                        else:
                            repl.append(ast.copy_location(ast.Assign(targets=[ast.Name(id=tmp, ctx=ast.Store())], value=result, lineno=st.lineno), st))
                            val2 = ast.Name(id=tmp, ctx=ast.Load())
                        if want == "test":
                            st.test = ast.copy_location(val2, site)  # type: ignore[attr-defined]
                        else:
                            st.iter = ast.copy_location(val2, site)  # type: ignore[attr-defined]
                        repl.append(st)
                    for x in repl:
                        ast.fix_missing_locations(x)
                    seq[i:i + 1] = repl
                    h.inlined += 1
                    count += 1
                    # look at the inserted statements again (helpers calling helpers), bounded by the caller
                    continue_at = i
                    i = continue_at + (len(repl) if want in ("test", "iter") else 0)
                    if want in ("test", "iter"):
                        # descend into the compound statement that we kept
                        for fld in ("body", "orelse", "finalbody"):
                            sub = getattr(st, fld, None)
                            if isinstance(sub, list):
                                do_list(sub)
                    continue
            # a statement helper called somewhere inside a simple statement (`return f"{k}_{self._next(k)}"`): its
            # body is placed before the statement and the call is replaced by the returned expression
            if isinstance(st, (ast.Expr, ast.Assign, ast.AugAssign, ast.AnnAssign, ast.Return)):
                nested_site = None
                for sub in ast.walk(st):
                    if isinstance(sub, (ast.Lambda, ast.ListComp, ast.SetComp, ast.DictComp, ast.GeneratorExp)):
                        continue
                    if isinstance(sub, ast.Call):
                        h2 = lookup(sub)
                        if h2 is not None and h2.kind == "stmts" and h2.node is not caller and not _inside_scope(st, sub):
                            nested_site = (sub, h2)
                            break
                if nested_site is not None:
                    sub, h2 = nested_site
                    r2 = _expand(h2, sub, caller, None, "stmt")
                    if r2 is not None and r2[1] is not None:
                        stmts2, result2 = r2
                        repl2: List[ast.stmt] = list(stmts2)
                        if isinstance(result2, (ast.Name, ast.Constant)):
                            val3: ast.AST = result2
                        else:
                            tmp2 = "result__i%d" % (sum(map(ord, h2.node.name)) % 97)
                            repl2.append(ast.copy_location(ast.Assign(targets=[ast.Name(id=tmp2, ctx=ast.Store())], value=result2, lineno=st.lineno), st))
                            val3 = ast.Name(id=tmp2, ctx=ast.Load())
                        if _replace_node(st, sub, ast.copy_location(val3, sub)):
                            for x in repl2:
                                ast.fix_missing_locations(x)
                            seq[i:i] = repl2
                            h2.inlined += 1
                            count += 1
                            continue  # look at the inserted statements (and this one) again
            # expression helpers inside this statement's own expressions
            for fld, val in ast.iter_fields(st):
                if fld in ("body", "orelse", "finalbody", "handlers", "cases"):
                    continue
                if isinstance(val, ast.AST):
                    holder = ast.Expr(value=val) if isinstance(val, ast.expr) else None
                    if holder is not None:
                        expr_sites(holder)
                        if holder.value is not val:
                            setattr(st, fld, holder.value)
                    else:
                        expr_sites(val)
                elif isinstance(val, list):
                    for j, v in enumerate(val):
                        if isinstance(v, ast.expr):
                            holder = ast.Expr(value=v)
                            expr_sites(holder)
                            if holder.value is not v:
                                val[j] = holder.value
                        elif isinstance(v, ast.AST) and not isinstance(v, ast.stmt):
                            expr_sites(v)
            for fld in ("body", "orelse", "finalbody"):
                sub = getattr(st, fld, None)
                if isinstance(sub, list) and sub and isinstance(sub[0], ast.stmt):
                    do_list(sub)
            for hd in getattr(st, "handlers", []) or []:
                do_list(hd.body)
            i += 1

    do_list(caller.body)  # type: ignore[attr-defined]
    return count


def _inside_scope(st: ast.AST, node: ast.AST) -> bool:
    """node sits inside a lambda / comprehension of statement st (evaluated zero or many times)"""
    for sc in ast.walk(st):
        if isinstance(sc, (ast.Lambda, ast.ListComp, ast.SetComp, ast.DictComp, ast.GeneratorExp)):
            if any(x is node for x in ast.walk(sc)):
                return True
    return False


def _replace_node(root: ast.AST, old: ast.AST, new: ast.AST) -> bool:
    for par in ast.walk(root):
        for fld, val in ast.iter_fields(par):
            if val is old:
                setattr(par, fld, new)
                return True
            if isinstance(val, list):
                for i, v in enumerate(val):
                    if v is old:
                        val[i] = new
                        return True
    return False


def _renamed_into(targets: Optional[ast.AST], stmts: List[ast.stmt]) -> bool:
    """after _expand the targets were consumed by renaming iff it returned result None *and* a store to the
    target names exists in the inserted statements"""
    if targets is None:
        return False
    want = {n.id for n in ast.walk(targets) if isinstance(n, ast.Name)}
    have: Set[str] = set()
    for s in stmts:
        for n in ast.walk(s):
            if isinstance(n, ast.Name) and isinstance(n.ctx, ast.Store):
                have.add(n.id)
    return bool(want) and want <= have


def _forwarder(fn: ast.FunctionDef) -> Optional[Tuple[str, ast.Call]]:
    """(name of the forwarded-to method, the call) when fn does nothing but `[return] self.G(..)` with its
    own parameters (each at most once), constants and global names as arguments"""
    if fn.decorator_list or isinstance(fn, ast.AsyncFunctionDef) or not fn.args.args or fn.args.vararg or fn.args.kwarg:
        return None
    body = _helper_body(fn)
    if len(body) != 1 or not isinstance(body[0], (ast.Expr, ast.Return)) or not isinstance(body[0].value, ast.Call):
        return None
    call = body[0].value
    self_name = fn.args.args[0].arg
    f = call.func
    if not (isinstance(f, ast.Attribute) and isinstance(f.value, ast.Name) and f.value.id == self_name and f.attr != fn.name):
        return None
    params = [a.arg for a in fn.args.args[1:]] + [a.arg for a in fn.args.kwonlyargs]
    seen: Set[str] = set()
    for a in list(call.args) + [k.value for k in call.keywords]:
        if isinstance(a, ast.Name):
            if a.id in params:
                if a.id in seen:
                    return None
                seen.add(a.id)
            elif a.id == self_name:
                return None
        elif isinstance(a, ast.Constant) or (isinstance(a, ast.Attribute) and _simple_arg(a) and self_name not in _names_used(a)):
            pass
        elif isinstance(a, (ast.List, ast.Tuple)) and not a.elts:
            pass
        else:
            return None
    if any(k.arg is None for k in call.keywords) or any(isinstance(a, ast.Starred) for a in call.args):
        return None
    return f.attr, call


def _module_bindings(tree: ast.Module) -> Set[str]:
    out: Set[str] = set()
    for st in tree.body:
        if isinstance(st, (ast.Import, ast.ImportFrom)):
            for a in st.names:
                out.add((a.asname or a.name).split(".")[0])
        elif isinstance(st, _FUNC + (ast.ClassDef,)):
            out.add(st.name)
        elif isinstance(st, (ast.Assign, ast.AnnAssign)):
            for x in ast.walk(st):
                if isinstance(x, ast.Name) and isinstance(x.ctx, ast.Store):
                    out.add(x.id)
    return out


def _import_for(trees: Dict[str, ast.Module], home: str, name: str) -> Optional[ast.stmt]:
    """an import statement that binds `name` the way module `home` does"""
    tree = trees.get(home)
    if tree is None:
        return None
    for st in tree.body:
        if isinstance(st, ast.ImportFrom) and st.level == 0:
            for a in st.names:
                if (a.asname or a.name) == name:
                    return ast.fix_missing_locations(ast.ImportFrom(module=st.module, names=[ast.alias(name=a.name, asname=a.asname)], level=0))
        elif isinstance(st, _FUNC + (ast.ClassDef,)) and st.name == name:
            return ast.fix_missing_locations(ast.ImportFrom(module=home, names=[ast.alias(name=name, asname=None)], level=0))
    return None


def expand_forwarders(trees: Dict[str, ast.Module]) -> List[str]:
    """`x.F(a, b)` -> `x.G(a, b, K)` for every method F that only forwards to `self.G(.., K)`.
    The typed insertion wrappers (`insert_SyntheticTail(n, P, S)` = `insert_block(n, P, S, SyntheticTail)`)
    are the case in point: whether a caller goes through the wrapper or not, the rules see one form.
    The wrappers themselves stay defined."""
    notes: List[str] = []
    method_count: Dict[str, int] = {}
    defs: Dict[str, ast.FunctionDef] = {}
    for t in trees.values():
        for n in ast.walk(t):
            if isinstance(n, ast.ClassDef):
                for s in n.body:
                    if isinstance(s, _FUNC):
                        method_count[s.name] = method_count.get(s.name, 0) + 1
                        defs[s.name] = s  # type: ignore[assignment]
    fwd: Dict[str, Tuple[ast.FunctionDef, str, ast.Call]] = {}
    fwd_home: Dict[str, str] = {}
    for mod_, t_ in trees.items():
        for n_ in ast.walk(t_):
            if isinstance(n_, ast.ClassDef):
                for s_ in n_.body:
                    if isinstance(s_, _FUNC):
                        fwd_home[s_.name] = mod_
    for name, fn in defs.items():
        if method_count[name] != 1 or name.startswith("__"):
            continue
        r = _forwarder(fn)
        if r is not None and not _private(r[0]):
            # (a method that forwards to a private helper is not a wrapper of a public primitive: the helper is
            # dissolved into it instead)
            fwd[name] = (fn, r[0], r[1])
    if not fwd:
        return notes
    counts: Dict[str, int] = {}
    for t in trees.values():
        for n in ast.walk(t):
            if not (isinstance(n, ast.Call) and isinstance(n.func, ast.Attribute) and n.func.attr in fwd):
                continue
            fn, target, inner = fwd[n.func.attr]
            # not the forwarding call inside the wrapper itself
            binding = _bind(fn, n, True)
            if binding is None:
                continue
            new_args = []
            for a in inner.args:
                new_args.append(copy.deepcopy(binding[a.id]) if isinstance(a, ast.Name) and a.id in binding else copy.deepcopy(a))
            new_kws = []
            for k in inner.keywords:
                v = k.value
                new_kws.append(ast.keyword(arg=k.arg, value=copy.deepcopy(binding[v.id]) if isinstance(v, ast.Name) and v.id in binding else copy.deepcopy(v)))
            # global names the forwarded call mentions (block classes) must be visible where the call is
            # expanded: the import that binds them in the wrapper's module is replicated (analysis only)
            need = {x.id for a in list(inner.args) + [k.value for k in inner.keywords] for x in ast.walk(a) if isinstance(x, ast.Name) and x.id not in binding}
            missing = need - _module_bindings(t)
            ok_ = True
            for nm in sorted(missing):
                imp = _import_for(trees, fwd_home[n.func.attr], nm)
                if imp is None:
                    ok_ = False
                    break
                t.body.insert(0, imp)
            if not ok_:
                continue
            counts[n.func.attr] = counts.get(n.func.attr, 0) + 1
            n.func.attr = target
            n.args = new_args
            n.keywords = new_kws
            ast.fix_missing_locations(n)
    for k, v in sorted(counts.items()):
        notes.append(f"forwarder {k} -> {fwd[k][1]}: {v} call site(s) expanded")
    return notes


def def_digest(fn: ast.AST) -> str:
    """digest of a definition's parameters and body (docstring, annotations, decorators' order and the
    definition's own name left out): two definitions with the same digest are the same code under two names"""
    import hashlib

    node = copy.deepcopy(fn)
    own = getattr(node, "name", "")
    body = list(getattr(node, "body", []))
    if body and isinstance(body[0], ast.Expr) and isinstance(body[0].value, ast.Constant) and isinstance(body[0].value.value, str):
        body = body[1:]
    parts = []
    if isinstance(node, _FUNC):
        a = node.args
        # parameters and locals under positional names: a definition renamed together with its parameters / locals
        # is still the same code
        order: Dict[str, str] = {}
        for x in a.posonlyargs + a.args + a.kwonlyargs + ([a.vararg] if a.vararg else []) + ([a.kwarg] if a.kwarg else []):
            order.setdefault(x.arg, f"_p{len(order)}")
        for st in body:
            for n in ast.walk(st):
                if isinstance(n, ast.Name) and isinstance(n.ctx, (ast.Store, ast.Del)):
                    order.setdefault(n.id, f"_v{len(order)}")
                elif isinstance(n, ast.arg):
                    order.setdefault(n.arg, f"_v{len(order)}")
                elif isinstance(n, ast.ExceptHandler) and n.name:
                    order.setdefault(n.name, f"_v{len(order)}")
        for x in a.posonlyargs + a.args + a.kwonlyargs + ([a.vararg] if a.vararg else []) + ([a.kwarg] if a.kwarg else []):
            x.arg = order[x.arg]
        for st in body:
            for n in ast.walk(st):
                if isinstance(n, ast.Name) and n.id in order and n.id != own:
                    n.id = order[n.id]
                elif isinstance(n, ast.arg) and n.arg in order:
                    n.arg = order[n.arg]
                elif isinstance(n, ast.ExceptHandler) and n.name in order:
                    n.name = order[n.name]
                elif isinstance(n, ast.keyword) and n.arg in order and False:
                    pass
        parts.append(",".join(x.arg for x in a.posonlyargs + a.args + a.kwonlyargs) + "|" + (a.vararg.arg if a.vararg else "") + "|" + (a.kwarg.arg if a.kwarg else ""))
        parts.append(",".join(ast.dump(d) for d in a.defaults + [d for d in a.kw_defaults if d is not None]))
    for st in body:
        for n in ast.walk(st):
            if isinstance(n, ast.Name) and n.id == own:
                n.id = "<self>"
            elif isinstance(n, ast.Attribute) and n.attr == own:
                n.attr = "<self>"
            elif isinstance(n, ast.arg):
                n.annotation = None
            elif isinstance(n, ast.AnnAssign):
                n.annotation = ast.Constant(value=None)
            elif isinstance(n, _FUNC):
                n.returns = None
        parts.append(ast.dump(st, annotate_fields=False))
    return hashlib.sha1("\n".join(parts).encode()).hexdigest()[:16]


def renamed_definitions(trees: Dict[str, ast.Module]) -> Dict[str, str]:
    """{new name: audited name} for definitions that were merely renamed: the audited tree defines A
    (sa/baseline_defs.py), the current tree does not, and exactly one definition F that the audited tree
    does not have carries A's body digest."""
    try:
        from .baseline_defs import DEFS, DIGESTS
    except Exception:
        return {}
    defined: Dict[str, List[ast.AST]] = {}
    for t in trees.values():
        for n in ast.walk(t):
            if isinstance(n, _FUNC + (ast.ClassDef,)):
                defined.setdefault(n.name, []).append(n)
    missing = [a for a in DEFS if a not in defined]
    if not missing:
        return {}
    by_digest: Dict[str, List[str]] = {}
    for nm, nodes in defined.items():
        if nm in DEFS or nm.startswith("__"):
            continue
        for nd in nodes:
            by_digest.setdefault(def_digest(nd), []).append(nm)
    out: Dict[str, str] = {}
    for a in missing:
        cands = set()
        for dg in DIGESTS.get(a, []):
            cands |= set(by_digest.get(dg, []))
        if len(cands) == 1:
            f = cands.pop()
            if f not in out:
                out[f] = a
    return out


def normalise_names(trees: Dict[str, ast.Module], anchors: Set[str]) -> List[str]:
    """A function the rules know by name that was merely made private or public (`update_exiting` ->
    `_update_exiting`, `_doms` -> `doms`) is read under the name the rules use: when the library defines F,
    defines no function named A, and A is the one name the checker uses with the same stem
    (leading / trailing underscores stripped), every occurrence of F is read as A."""
    notes: List[str] = []
    defined: Set[str] = set()
    for t in trees.values():
        for n in ast.walk(t):
            if isinstance(n, _FUNC):
                defined.add(n.name)
    by_stem: Dict[str, List[str]] = {}
    for a in (anchors & whole_string_names()):
        st_ = a.strip("_")
        # only unmistakable function names: several words, or long
        if len(st_) >= 5 and ("_" in st_ or len(st_) >= 7):
            by_stem.setdefault(st_, []).append(a)
    ren: Dict[str, str] = {}
    for f in sorted(defined):
        if f in anchors or f.startswith("__"):
            continue
        cands = [a for a in by_stem.get(f.strip("_"), []) if a not in defined]
        if len(cands) == 1:
            ren[f] = cands[0]
    # a pure rename (same body under a new name) of a definition of the audited tree
    same_body = {f: a for f, a in renamed_definitions(trees).items() if f not in ren and a not in ren.values()}
    ren.update(same_body)
    if not ren:
        return notes
    for t in trees.values():
        for n in ast.walk(t):
            if isinstance(n, _FUNC + (ast.ClassDef,)) and n.name in ren:
                n.name = ren[n.name]
            elif isinstance(n, ast.Name) and n.id in ren:
                n.id = ren[n.id]
            elif isinstance(n, ast.Attribute) and n.attr in ren:
                n.attr = ren[n.attr]
            elif isinstance(n, ast.alias):
                if n.name in ren:
                    n.name = ren[n.name]
                if n.asname in ren:
                    n.asname = ren[n.asname]
            elif isinstance(n, ast.keyword) and n.arg in ren:
                pass
    for f, a in sorted(ren.items()):
        notes.append(f"function {f} is read as {a} ({'same body as in the audited tree' if f in same_body else 'same stem'}; the rules use the latter name)")
    return notes


def expand_context_managers(trees: Dict[str, ast.Module]) -> List[str]:
    """`with self.cm(a, b): BODY` for a generator-based context manager of the library
    (`@contextmanager def cm(..): PRE; yield; POST`) is read as PRE; BODY; POST - what happens on normal
    completion.  A try/finally around the yield contributes its finally part as POST."""
    notes: List[str] = []
    cms: Dict[str, Tuple[ast.FunctionDef, bool]] = {}
    counts: Dict[str, int] = {}
    for t in trees.values():
        for n in ast.walk(t):
            holder_is_class = isinstance(n, ast.ClassDef)
            if isinstance(n, (ast.ClassDef, ast.Module)):
                for st in n.body:
                    if isinstance(st, ast.FunctionDef) and any((isinstance(d, ast.Name) and d.id == "contextmanager") or (isinstance(d, ast.Attribute) and d.attr == "contextmanager") for d in st.decorator_list):
                        counts[st.name] = counts.get(st.name, 0) + 1
                        cms[st.name] = (st, holder_is_class)
    cms = {k: v for k, v in cms.items() if counts[k] == 1}
    if not cms:
        return notes

    def split(fn: ast.FunctionDef):
        body = _helper_body(fn)
        ys = [n for n in _own_nodes(fn) if isinstance(n, (ast.Yield, ast.YieldFrom))]
        if len(ys) != 1 or not isinstance(ys[0], ast.Yield):
            return None
        for i, st in enumerate(body):
            if isinstance(st, ast.Expr) and st.value is ys[0]:
                return body[:i], ys[0].value, body[i + 1:]
            if isinstance(st, ast.Try) and len(st.body) == 1 and isinstance(st.body[0], ast.Expr) and st.body[0].value is ys[0] and not st.handlers and not st.orelse:
                return body[:i], ys[0].value, list(st.finalbody) + body[i + 1:]
        return None

    n_sites = 0
    for t in trees.values():
        for holder in ast.walk(t):
            for fld in ("body", "orelse", "finalbody"):
                seq = getattr(holder, fld, None)
                if not (isinstance(seq, list) and seq and isinstance(seq[0], ast.stmt)):
                    continue
                i = 0
                while i < len(seq):
                    st = seq[i]
                    if isinstance(st, ast.With) and len(st.items) == 1 and isinstance(st.items[0].context_expr, ast.Call):
                        call = st.items[0].context_expr
                        f = call.func
                        nm = f.attr if isinstance(f, ast.Attribute) else (f.id if isinstance(f, ast.Name) else None)
                        if nm in cms and not (isinstance(holder, ast.FunctionDef) and holder is cms[nm][0]):
                            fn, is_method = cms[nm]
                            parts = split(fn)
                            binding = _bind(fn, call, is_method and isinstance(f, ast.Attribute)) if parts else None
                            if parts and binding is not None:
                                pre, yv, post = parts
                                names: Dict[str, ast.AST] = dict(binding)
                                if is_method and isinstance(f, ast.Attribute) and fn.args.args:
                                    names[fn.args.args[0].arg] = f.value
                                stored = _stored_names(fn)
                                sfx = "__i%d" % (sum(map(ord, fn.name)) % 97)
                                rename = {s_: s_ + sfx for s_ in stored if s_ not in binding}
                                if any(p in stored for p in binding):
                                    i += 1
                                    continue
                                sub = _Subst(names, rename)
                                new_pre = [sub.visit(copy.deepcopy(x)) for x in pre]
                                new_post = [sub.visit(copy.deepcopy(x)) for x in post]
                                bind_as = []
                                if st.items[0].optional_vars is not None:
                                    val = sub.visit(copy.deepcopy(yv)) if yv is not None else ast.Constant(value=None)
                                    bind_as = [ast.copy_location(ast.Assign(targets=[st.items[0].optional_vars], value=val, lineno=st.lineno), st)]
                                repl = new_pre + bind_as + list(st.body) + new_post
                                for x in repl:
                                    ast.fix_missing_locations(x)
                                seq[i:i + 1] = repl
                                n_sites += 1
                                continue
                    i += 1
    if n_sites:
        notes.append(f"context managers {sorted(cms)}: {n_sites} with-statement(s) read as enter; body; exit")
    return notes


def inline_helpers(trees: Dict[str, ast.Module], anchors: Optional[Set[str]] = None) -> List[str]:
    """In-place.  Returns notes `module: helper -> n sites (dissolved|kept)`."""
    anchors = anchor_names() if anchors is None else anchors
    notes: List[str] = normalise_names(trees, anchors)
    notes += specialise_unused_defaults(trees)
    notes += inline_package_constants(trees)
    notes += unroll_dispatch_tables(trees)
    notes += inline_local_atom_tables(trees)
    for t_ in trees.values():
        _fold_constants(t_)  # getattr(x, "name") / tuple sums that the unrolling has made constant
    notes += dissolve_parameter_objects(trees)
    notes += fuse_wrappers(trees)
    notes += normalise_varargs(trees)
    notes += normalise_call_arguments(trees)
    notes += expand_forwarders(trees)
    notes += expand_context_managers(trees)
    # method names defined in more than one class anywhere are subject to dispatch
    method_count: Dict[str, int] = {}
    for t in trees.values():
        for n in ast.walk(t):
            if isinstance(n, ast.ClassDef):
                for s in n.body:
                    if isinstance(s, _FUNC):
                        method_count[s.name] = method_count.get(s.name, 0) + 1
    notes += expand_generator_helpers(trees, anchors)
    new_helpers, new_home = _new_helpers(trees, anchors, method_count)
    notes += expand_new_properties(trees, anchors, method_count)
    for mod, tree in trees.items():
        helpers: Dict[Tuple[Optional[str], str], _Helper] = {}
        for st in tree.body:
            if isinstance(st, ast.FunctionDef) and _private(st.name) and st.name not in anchors:
                k = _classify(st)
                if k and not _calls_name(st, st.name):
                    helpers[(None, st.name)] = _Helper(st, None, k)
            elif isinstance(st, ast.ClassDef):
                for s in st.body:
                    if isinstance(s, ast.FunctionDef) and _private(s.name) and s.name not in anchors and method_count.get(s.name) == 1:
                        k = _classify(s)
                        if k and (s.args.args or s.decorator_list) and not _calls_name(s, s.name):
                            helpers[(st.name, s.name)] = _Helper(s, st, k)
        if not helpers and not new_helpers:
            continue
        used: Set[str] = set()
        for _round in range(3):
            n = 0
            for st in tree.body:
                if isinstance(st, _FUNC):
                    n += _inline_in_function(st, helpers, None, new_helpers, used)
                    for inner in ast.walk(st):
                        if isinstance(inner, _FUNC) and inner is not st:
                            n += _inline_in_function(inner, helpers, None, new_helpers, used)
                elif isinstance(st, ast.ClassDef):
                    for s in st.body:
                        if isinstance(s, _FUNC):
                            n += _inline_in_function(s, helpers, st.name, new_helpers, used)
                            # closures and the methods of classes defined inside the method
                            for inner in ast.walk(s):
                                if isinstance(inner, _FUNC) and inner is not s:
                                    n += _inline_in_function(inner, helpers, None, new_helpers, used)
            if n == 0:
                break
        # global names a helper from another module mentions must be visible where it was expanded: the
        # binding of the helper's module is replicated (analysis only)
        for hn in sorted(used):
            home = new_home[hn]
            if home == mod:
                continue
            h = new_helpers[hn]
            free = {x.id for x in ast.walk(h.node) if isinstance(x, ast.Name)} - {a.arg for a in h.node.args.args + h.node.args.kwonlyargs} - _stored_names(h.node)
            missing = (free & _module_bindings(trees[home])) - _module_bindings(tree)
            for nm in sorted(missing):
                imp = _import_for(trees, home, nm)
                if imp is None:
                    imp = ast.fix_missing_locations(ast.ImportFrom(module=home, names=[ast.alias(name=nm, asname=None)], level=0))
                tree.body.insert(0, imp)
        # dissolve helpers that are referenced nowhere any more
        for (cname, hname), h in helpers.items():
            if not h.inlined:
                continue
            refs = 0
            for t2 in trees.values():
                for x in ast.walk(t2):
                    if isinstance(x, ast.Name) and x.id == hname and cname is None:
                        refs += 1
                    elif isinstance(x, ast.Attribute) and x.attr == hname:
                        refs += 1
                    elif isinstance(x, ast.alias) and x.name == hname:
                        refs += 1
                    elif isinstance(x, ast.Constant) and x.value == hname:
                        refs += 1
            if refs == 0:
                holder = h.cls.body if h.cls is not None else tree.body
                holder.remove(h.node)
                if h.cls is not None and not holder:
                    holder.append(ast.Pass())
                notes.append(f"{mod}: {(cname + '.') if cname else ''}{hname} -> {h.inlined} site(s), dissolved")
            else:
                notes.append(f"{mod}: {(cname + '.') if cname else ''}{hname} -> {h.inlined} site(s), kept ({refs} other reference(s))")
    # closures new to the tree (a local function that the audited tree does not have and no rule names) are read
    # through inside the function that defines them: they share its scope, so nothing needs to be bound
    base_ = _baseline_defs()
    if base_:
        wsn_ = whole_string_names()
        for mod, tree in trees.items():
            for outer in [n for n in ast.walk(tree) if isinstance(n, _FUNC)]:
                local: Dict[Tuple[Optional[str], str], _Helper] = {}
                for st in outer.body:
                    if isinstance(st, ast.FunctionDef) and st.name not in base_ and st.name not in wsn_ and not st.decorator_list:
                        k = _classify(st)
                        if k and not _calls_name(st, st.name):
                            # a closure that re-binds a variable of the enclosing function cannot be read through
                            if _stored_names(st) & (_names_used(outer) - _names_used(st)) - {a.arg for a in st.args.args}:
                                pass
                            local[(None, st.name)] = _Helper(st, None, k)
                if not local:
                    continue
                for _round in range(3):
                    if _inline_in_function(outer, local, None) == 0:
                        break
                # a closure still called where statements cannot be placed (an operand of `or`): as one expression
                again = False
                for (_c, hname), h in local.items():
                    if h.kind == "stmts" and any(isinstance(x, ast.Call) and isinstance(x.func, ast.Name) and x.func.id == hname
                                                 for x in ast.walk(outer)) and _fold_to_expression(h.node):
                        h.kind = "expr"
                        again = True
                if again:
                    for _round in range(3):
                        if _inline_in_function(outer, local, None) == 0:
                            break
                for (_c, hname), h in local.items():
                    if not h.inlined:
                        continue
                    refs = sum(1 for x in ast.walk(outer) if isinstance(x, ast.Name) and x.id == hname)
                    if refs == 0 and h.node in outer.body:
                        outer.body.remove(h.node)
                        notes.append(f"{mod}: closure {hname} of {outer.name} -> {h.inlined} site(s), dissolved")
                    else:
                        notes.append(f"{mod}: closure {hname} of {outer.name} -> {h.inlined} site(s), kept")
    # helpers new to the tree: dissolved when every reference was read through
    done_: Set[int] = set()
    for hkey, h in sorted(new_helpers.items()):
        hname = h.node.name
        if not h.inlined or id(h) in done_:
            continue
        done_.add(id(h))
        new_home[hname] = new_home[hkey]
        refs = 0
        for t2 in trees.values():
            for x in ast.walk(t2):
                if isinstance(x, ast.Name) and x.id == hname:
                    refs += 1
                elif isinstance(x, ast.Attribute) and x.attr == hname:
                    refs += 1
                elif isinstance(x, ast.Constant) and x.value == hname:
                    refs += 1
        if refs == 0:
            holder = h.cls.body if h.cls is not None else trees[new_home[hname]].body
            holder.remove(h.node)
            if h.cls is not None and not holder:
                holder.append(ast.Pass())
            for t2 in trees.values():
                for st in list(t2.body):
                    if isinstance(st, ast.ImportFrom):
                        st.names = [a for a in st.names if a.name != hname]
                        if not st.names:
                            t2.body.remove(st)
            notes.append(f"{new_home[hname]}: new helper {hname} -> {h.inlined} site(s), dissolved")
        else:
            notes.append(f"{new_home[hname]}: new helper {hname} -> {h.inlined} site(s), kept ({refs} other reference(s))")
    notes += read_through_stable_fields(trees)
    notes += read_constructor_fields(trees)
    return notes


def specialise_unused_defaults(trees: Dict[str, ast.Module]) -> List[str]:
    """A definition new to the tree with a parameter `P=None` that no call in the package passes, whose body opens
    with `if P is None: P = E` (E a name or dotted name): read without the parameter, `P` standing for `E`.
    (An injection point for tests; the package itself always runs the default.)"""
    base = _baseline_defs()
    if not base:
        return []
    notes: List[str] = []
    count: Dict[str, int] = {}
    for t in trees.values():
        for n in ast.walk(t):
            if isinstance(n, _FUNC + (ast.ClassDef,)):
                count[n.name] = count.get(n.name, 0) + 1
    for mod, t in trees.items():
        cands = [(fn, False) for fn in t.body if isinstance(fn, ast.FunctionDef)] + [(fn, True) for c_ in t.body if isinstance(c_, ast.ClassDef) for fn in c_.body if isinstance(fn, ast.FunctionDef)]
        for fn, is_m in cands:
            if fn.name in base or count.get(fn.name) != 1 or fn.args.vararg or fn.args.kwarg:
                continue
            a = fn.args
            pos = a.args
            dflt = dict(zip([x.arg for x in pos[len(pos) - len(a.defaults):]], a.defaults))
            body = _helper_body(fn)
            for pname, d in list(dflt.items()):
                if not (isinstance(d, ast.Constant) and d.value is None) or not body:
                    continue
                st = body[0]
                if not (isinstance(st, ast.If) and not st.orelse and len(st.body) == 1 and isinstance(st.test, ast.Compare) and len(st.test.ops) == 1 and isinstance(st.test.ops[0], ast.Is)
                        and isinstance(st.test.left, ast.Name) and st.test.left.id == pname and isinstance(st.test.comparators[0], ast.Constant) and st.test.comparators[0].value is None
                        and isinstance(st.body[0], ast.Assign) and len(st.body[0].targets) == 1 and isinstance(st.body[0].targets[0], ast.Name) and st.body[0].targets[0].id == pname
                        and A_dotted(st.body[0].value) is not None):
                    continue
                idx = [x.arg for x in pos].index(pname)
                if idx != len(pos) - 1:
                    continue  # only the last positional parameter: no call site needs renumbering
                other_stores = [n for n in _own_nodes(fn) if isinstance(n, ast.Name) and n.id == pname and isinstance(n.ctx, (ast.Store, ast.Del)) and n is not st.body[0].targets[0]]
                if other_stores:
                    continue
                n_expected = idx - (1 if is_m and not any(isinstance(dd, ast.Name) and dd.id == "staticmethod" for dd in fn.decorator_list) else 0)
                passed = False
                for t2 in trees.values():
                    for c in ast.walk(t2):
                        if isinstance(c, ast.Call):
                            nm = c.func.id if isinstance(c.func, ast.Name) else (c.func.attr if isinstance(c.func, ast.Attribute) else None)
                            if nm == fn.name and (len(c.args) > n_expected or any(k.arg == pname or k.arg is None for k in c.keywords) or any(isinstance(x, ast.Starred) for x in c.args)):
                                passed = True
                        elif isinstance(c, ast.Name) and c.id == fn.name and not isinstance(getattr(c, "ctx", None), ast.Store):
                            pass
                if passed:
                    continue
                e_ = st.body[0].value
                fn.body.remove(st)

                class _S(ast.NodeTransformer):
                    def visit_Name(self, n: ast.Name):
                        if n.id == pname and isinstance(n.ctx, ast.Load):
                            return ast.copy_location(copy.deepcopy(e_), n)
                        return n

                fn.body = [_S().visit(x) for x in fn.body]
                a.args = pos[:-1]
                a.defaults = a.defaults[:-1]
                ast.fix_missing_locations(fn)
                notes.append(f"{mod}: {fn.name}({pname}=None) is never given {pname}: read with {A_dotted(e_)}")
                break
    return notes


def read_constructor_fields(trees: Dict[str, ast.Module]) -> List[str]:
    """`r = Cls(.., f=v, ..)` (a dataclass of the package, `r` and `v` locals bound once, `v` a plain name) followed
    by reads of `r.f` in the same function: read as `v`, unless the function itself re-points the field
    (`object.__setattr__(r, "f", ..)` / `r.f = ..`).  A local `x = r.f` then falls to the alias rule."""
    dcs: Dict[str, Set[str]] = {}
    positional: Dict[str, List[str]] = {}
    n_cls: Dict[str, int] = {}
    for t in trees.values():
        for n in ast.walk(t):
            if isinstance(n, ast.ClassDef):
                n_cls[n.name] = n_cls.get(n.name, 0) + 1
                is_dc = any((A_dotted(d.func if isinstance(d, ast.Call) else d) or "").split(".")[-1] == "dataclass" for d in n.decorator_list)
                is_nt = len(n.bases) == 1 and (A_dotted(n.bases[0]) or "").split(".")[-1] == "NamedTuple"
                if (is_dc or is_nt) \
                        and not any(isinstance(s_, ast.FunctionDef) and s_.name in ("__init__", "__post_init__", "__new__", "__getattr__", "__getattribute__") for s_ in n.body):
                    dcs[n.name] = {s_.target.id for s_ in n.body if isinstance(s_, ast.AnnAssign) and isinstance(s_.target, ast.Name)}
                    if is_nt or not n.bases:
                        positional[n.name] = [s_.target.id for s_ in n.body if isinstance(s_, ast.AnnAssign) and isinstance(s_.target, ast.Name)]
    # inherited fields: a subclass of a dataclass has its base's fields too
    for t in trees.values():
        for n in ast.walk(t):
            if isinstance(n, ast.ClassDef) and n.name in dcs:
                for b in n.bases:
                    bn = (A_dotted(b) or "").split(".")[-1]
                    if bn in dcs:
                        dcs[n.name] |= dcs[bn]
    n_sites = 0
    for t in trees.values():
        for fn in [x for x in ast.walk(t) if isinstance(x, _FUNC)]:
            stores: Dict[str, int] = {}
            for x in _own_nodes(fn):
                if isinstance(x, ast.Name) and isinstance(x.ctx, (ast.Store, ast.Del)):
                    stores[x.id] = stores.get(x.id, 0) + 1
            params = {a.arg for a in fn.args.args + fn.args.kwonlyargs + fn.args.posonlyargs}
            for i, st in enumerate(fn.body):
                if not (isinstance(st, ast.Assign) and len(st.targets) == 1 and isinstance(st.targets[0], ast.Name) and isinstance(st.value, ast.Call)):
                    continue
                r = st.targets[0].id
                cn = (A_dotted(st.value.func) or "").split(".")[-1]
                if cn not in dcs or n_cls.get(cn) != 1 or stores.get(r) != 1:
                    continue
                given = [(k.arg, k.value) for k in st.value.keywords]
                if cn in positional and not any(isinstance(a_, ast.Starred) for a_ in st.value.args):
                    given += list(zip(positional[cn], st.value.args))
                for karg, kval in given:
                    if karg not in dcs[cn] or not isinstance(kval, ast.Name):
                        continue
                    v = kval.id
                    if not (stores.get(v, 0) == 1 or (v in params and stores.get(v, 0) == 0)):
                        continue
                    f = karg
                    repointed = False
                    for x in _own_nodes(fn):
                        if isinstance(x, ast.Attribute) and x.attr == f and isinstance(x.ctx, (ast.Store, ast.Del)) and isinstance(x.value, ast.Name) and x.value.id == r:
                            repointed = True
                        if isinstance(x, ast.Call) and (A_dotted(x.func) or "").endswith("__setattr__") and len(x.args) >= 2 and isinstance(x.args[0], ast.Name) and x.args[0].id == r \
                                and not (isinstance(x.args[1], ast.Constant) and x.args[1].value != f):
                            repointed = True
                    if repointed:
                        continue

                    class _S(ast.NodeTransformer):
                        def __init__(self):
                            self.n = 0

                        def visit_Attribute(self, a: ast.Attribute):
                            self.generic_visit(a)
                            if a.attr == f and isinstance(a.ctx, ast.Load) and isinstance(a.value, ast.Name) and a.value.id == r:
                                self.n += 1
                                return ast.copy_location(ast.Name(id=v, ctx=ast.Load()), a)
                            return a

                    tr = _S()
                    for j in range(i + 1, len(fn.body)):
                        fn.body[j] = tr.visit(fn.body[j])
                    n_sites += tr.n
    # x = v left behind by the substitution (`x = r.f` -> `x = v`) is an alias of a local: canonicalise reads it through
    return [f"{n_sites} read(s) of a field of an object constructed in the same function read as the constructor argument"] if n_sites else []


def read_through_stable_fields(trees: Dict[str, ast.Module]) -> List[str]:
    """`v = b.F` for a dataclass field F that nothing in the package ever stores to (no `x.F = ..`, no
    setattr(.., "F", ..), no property / method of that name): `v` and `b.F` are the same object for as long
    as `b` is not re-bound, so a local bound once to it (outside any loop, `b` a parameter or a local that is
    itself bound once outside any loop) is read as `b.F`.  Hoisting an attribute into a local is not something
    a rule should see."""
    fields: Set[str] = set()
    unstable: Set[str] = set()
    init_stores: Set[int] = set()
    for t in trees.values():
        for n in ast.walk(t):
            if isinstance(n, ast.FunctionDef) and n.name == "__init__" and n.args.args:
                me = n.args.args[0].arg
                for st in n.body:
                    if isinstance(st, (ast.Assign, ast.AnnAssign)):
                        for tg in (st.targets if isinstance(st, ast.Assign) else [st.target]):
                            if isinstance(tg, ast.Attribute) and isinstance(tg.value, ast.Name) and tg.value.id == me:
                                init_stores.add(id(tg))
    for t in trees.values():
        for n in ast.walk(t):
            if isinstance(n, ast.ClassDef):
                for st in n.body:
                    if isinstance(st, ast.AnnAssign) and isinstance(st.target, ast.Name):
                        fields.add(st.target.id)
                    elif isinstance(st, _FUNC):
                        unstable.add(st.name)
            elif isinstance(n, ast.Attribute) and isinstance(n.ctx, (ast.Store, ast.Del)):
                if id(n) in init_stores:
                    fields.add(n.attr)  # set once by the constructor: stable afterwards
                else:
                    unstable.add(n.attr)
            elif isinstance(n, ast.Call) and (isinstance(n.func, ast.Name) and n.func.id in ("setattr", "delattr") or isinstance(n.func, ast.Attribute) and n.func.attr in ("__setattr__", "__delattr__")):
                for a in n.args:
                    if isinstance(a, ast.Constant) and isinstance(a.value, str):
                        unstable.add(a.value)
                    elif not isinstance(a, (ast.Name, ast.Attribute)):
                        pass
                # a computed attribute name: nothing is stable
                if len(n.args) >= 2 and not any(isinstance(a, ast.Constant) and isinstance(a.value, str) for a in n.args[:2]):
                    return []
    stable = fields - unstable
    if not stable:
        return []
    n_sites = 0
    for t in trees.values():
        for fn in [x for x in ast.walk(t) if isinstance(x, _FUNC)]:
            if any(isinstance(x, (ast.Global, ast.Nonlocal)) for x in _own_nodes(fn)):
                continue
            for _round in range(4):
                stores: Dict[str, int] = {}
                own = list(_own_nodes(fn))
                decls = {id(x.target) for x in own if isinstance(x, ast.AnnAssign) and x.value is None}
                for x in own:
                    if isinstance(x, ast.Name) and isinstance(x.ctx, (ast.Store, ast.Del)) and id(x) not in decls:
                        stores[x.id] = stores.get(x.id, 0) + 1
                nested: Set[str] = set()
                for x in ast.walk(fn):
                    if x is not fn and isinstance(x, _FUNC + (ast.Lambda,)):
                        nested |= {y.id for y in ast.walk(x) if isinstance(y, ast.Name) and isinstance(y.ctx, ast.Store)}
                params = {a.arg for a in fn.args.args + fn.args.kwonlyargs + fn.args.posonlyargs}
                once: Dict[str, Tuple[ast.stmt, list]] = {}

                def scan(stmts, in_loop):
                    for st in stmts:
                        tgt = None
                        if isinstance(st, ast.Assign) and len(st.targets) == 1 and isinstance(st.targets[0], ast.Name):
                            tgt = st.targets[0].id
                        elif isinstance(st, ast.AnnAssign) and st.value is not None and isinstance(st.target, ast.Name):
                            tgt = st.target.id
                        if tgt is not None and not in_loop and stores.get(tgt) == 1 and tgt not in params and tgt not in nested:
                            once[tgt] = (st, stmts)
                        if isinstance(st, _FUNC + (ast.ClassDef,)):
                            continue
                        for fld in ("body", "orelse", "finalbody"):
                            sub = getattr(st, fld, None)
                            if isinstance(sub, list) and sub and isinstance(sub[0], ast.stmt):
                                scan(sub, in_loop or isinstance(st, (ast.For, ast.While, ast.AsyncFor)))
                        for h in getattr(st, "handlers", []) or []:
                            scan(h.body, in_loop)

                scan(fn.body, False)
                hit = False
                for v, (st, holder) in once.items():
                    val = st.value
                    if not (isinstance(val, ast.Attribute) and val.attr in stable and isinstance(val.value, ast.Name)):
                        continue
                    b = val.value.id
                    if not (b in params and stores.get(b, 0) == 0 or b in once) or b in nested:
                        continue
                    for x in ast.walk(fn):
                        for fld, sub in ast.iter_fields(x):
                            if isinstance(sub, ast.Name) and sub.id == v and isinstance(sub.ctx, ast.Load):
                                setattr(x, fld, ast.copy_location(ast.Attribute(value=ast.Name(id=b, ctx=ast.Load()), attr=val.attr, ctx=ast.Load()), sub))
                            elif isinstance(sub, list):
                                for k_, y in enumerate(sub):
                                    if isinstance(y, ast.Name) and y.id == v and isinstance(y.ctx, ast.Load):
                                        sub[k_] = ast.copy_location(ast.Attribute(value=ast.Name(id=b, ctx=ast.Load()), attr=val.attr, ctx=ast.Load()), y)
                    holder.remove(st)
                    if not holder:
                        holder.append(ast.copy_location(ast.Pass(), st))
                    ast.fix_missing_locations(fn)
                    n_sites += 1
                    hit = True
                    break
                if not hit:
                    break
    return [f"stable fields {sorted(stable)}: {n_sites} local alias(es) read as the field"] if n_sites else []


def inline_local_atom_tables(trees: Dict[str, ast.Module]) -> List[str]:
    """`classes = (ast.Break, ast.Continue, ast.Pass)` bound once at the top level of a function (not in a loop)
    and only read afterwards: read as the display at each use (`isinstance(node, classes)`)."""
    n_sites = 0
    for t in trees.values():
        for fn in [x for x in ast.walk(t) if isinstance(x, _FUNC)]:
            stores: Dict[str, int] = {}
            for x in _own_nodes(fn):
                if isinstance(x, ast.Name) and isinstance(x.ctx, (ast.Store, ast.Del)):
                    stores[x.id] = stores.get(x.id, 0) + 1
            nested = {y.id for x in ast.walk(fn) if x is not fn and isinstance(x, _FUNC + (ast.Lambda,)) for y in ast.walk(x) if isinstance(y, ast.Name)}
            for st in list(fn.body):
                if isinstance(st, ast.Assign) and len(st.targets) == 1 and isinstance(st.targets[0], ast.Name) and isinstance(st.value, ast.Tuple) and _atom_table(st.value) \
                        and all(isinstance(e, ast.Attribute) for e in st.value.elts) and stores.get(st.targets[0].id) == 1 and st.targets[0].id not in nested:
                    nm = st.targets[0].id
                    val = st.value

                    class _S(ast.NodeTransformer):
                        def __init__(self):
                            self.n = 0

                        def visit_Name(self, n: ast.Name):
                            if n.id == nm and isinstance(n.ctx, ast.Load):
                                self.n += 1
                                return ast.copy_location(copy.deepcopy(val), n)
                            return n

                    tr = _S()
                    idx = fn.body.index(st)
                    for j in range(idx + 1, len(fn.body)):
                        fn.body[j] = tr.visit(fn.body[j])
                    if tr.n:
                        fn.body.remove(st)
                        n_sites += tr.n
                        ast.fix_missing_locations(fn)
    return [f"{n_sites} read(s) of a local table of classes read as the display"] if n_sites else []


def _atom_table(v: ast.AST) -> bool:
    """a tuple / list display whose elements are dotted names, constants or such displays (not empty)"""
    def atom(x):
        if isinstance(x, ast.Constant):
            return True
        if isinstance(x, ast.Attribute):
            return atom(x.value) if not isinstance(x.value, ast.Name) else True
        if isinstance(x, (ast.Tuple, ast.List)):
            return all(atom(e) for e in x.elts)
        return False
    return isinstance(v, (ast.Tuple, ast.List)) and bool(v.elts) and all(atom(e) for e in v.elts) and all(not isinstance(e, ast.Name) for e in ast.walk(v) if isinstance(e, ast.Name) and False)


def _fold_constants(tree: ast.AST) -> int:
    """`0 + 1` -> `1`, `str(0)` -> `'0'`, `'a' + 'b'` -> `'ab'`, `'x_{}'.format` stays (canonicalise turns it into
    an f-string), a str constant inside an f-string joins the literal text, `set('0')` -> `{'0'}`"""
    n_ = 0

    def fold(v: ast.AST) -> Optional[ast.AST]:
        if isinstance(v, ast.BinOp) and isinstance(v.left, ast.Constant) and isinstance(v.right, ast.Constant):
            a, b = v.left.value, v.right.value
            try:
                if isinstance(a, int) and isinstance(b, int) and not isinstance(a, bool) and not isinstance(b, bool):
                    if isinstance(v.op, ast.Add):
                        return ast.Constant(value=a + b)
                    if isinstance(v.op, ast.Sub):
                        return ast.Constant(value=a - b)
                    if isinstance(v.op, ast.Mult) and abs(a) < 10**6 and abs(b) < 10**6:
                        return ast.Constant(value=a * b)
                if isinstance(a, str) and isinstance(b, str) and isinstance(v.op, ast.Add):
                    return ast.Constant(value=a + b)
            except Exception:
                return None
        if isinstance(v, ast.BinOp) and isinstance(v.op, ast.Add) and isinstance(v.left, ast.Tuple) and isinstance(v.right, ast.Tuple) and _atom_table(v.left) and _atom_table(v.right):
            return ast.Tuple(elts=list(v.left.elts) + list(v.right.elts), ctx=ast.Load())
        if isinstance(v, ast.Call) and isinstance(v.func, ast.Name) and v.func.id == "getattr" and len(v.args) == 2 and not v.keywords and isinstance(v.args[1], ast.Constant) and isinstance(v.args[1].value, str) and v.args[1].value.isidentifier():
            return ast.Attribute(value=v.args[0], attr=v.args[1].value, ctx=ast.Load())
        if isinstance(v, ast.Call) and isinstance(v.func, ast.Name) and v.func.id == "str" and len(v.args) == 1 and not v.keywords and isinstance(v.args[0], ast.Constant) and isinstance(v.args[0].value, (int, str)) and not isinstance(v.args[0].value, bool):
            return ast.Constant(value=str(v.args[0].value))
        if isinstance(v, ast.Call) and isinstance(v.func, ast.Name) and v.func.id == "set" and len(v.args) == 1 and not v.keywords and isinstance(v.args[0], ast.Constant) and isinstance(v.args[0].value, str) and len(v.args[0].value) == 1:
            return ast.Set(elts=[ast.Constant(value=v.args[0].value)])
        if isinstance(v, ast.JoinedStr) and any(isinstance(x, ast.FormattedValue) and isinstance(x.value, ast.Constant) and isinstance(x.value.value, (str, int)) and not isinstance(x.value.value, bool) and x.conversion == -1 and x.format_spec is None for x in v.values):
            parts: List[ast.AST] = []
            for x in v.values:
                if isinstance(x, ast.FormattedValue) and isinstance(x.value, ast.Constant) and isinstance(x.value.value, (str, int)) and not isinstance(x.value.value, bool) and x.conversion == -1 and x.format_spec is None:
                    x = ast.Constant(value=str(x.value.value))
                if isinstance(x, ast.Constant) and parts and isinstance(parts[-1], ast.Constant):
                    parts[-1] = ast.Constant(value=str(parts[-1].value) + str(x.value))
                else:
                    parts.append(x)
            if len(parts) == 1 and isinstance(parts[0], ast.Constant):
                return ast.Constant(value=parts[0].value)
            return ast.JoinedStr(values=parts)
        return None

    for _ in range(4):
        changed = 0
        for parent in list(ast.walk(tree)):
            for fld, val in ast.iter_fields(parent):
                items = val if isinstance(val, list) else [val]
                for i, v in enumerate(items):
                    if not isinstance(v, ast.AST):
                        continue
                    new = fold(v)
                    if new is not None:
                        new = ast.copy_location(new, v)
                        ast.fix_missing_locations(new)
                        if isinstance(val, list):
                            val[i] = new
                        else:
                            setattr(parent, fld, new)
                        changed += 1
        n_ += changed
        if not changed:
            break
    return n_


def inline_package_constants(trees: Dict[str, ast.Module]) -> List[str]:
    notes: List[str] = []
    total = 0
    for _round in range(3):
        n = _inline_package_constants_once(trees)
        f = sum(_fold_constants(t) for t in trees.values())
        total += n
        if not n and not f:
            break
    if total:
        notes.append(f"named constants: {total} use(s) of module-level literal constants read as their values")
    return notes


def _inline_package_constants_once(trees: Dict[str, ast.Module]) -> int:
    """A module-level `NAME = "literal"` (ALL-CAPS or private name, str or int, bound once, never re-bound)
    is read as its value wherever it is used: in its own module, through `from m import NAME [as X]`, and
    through `m.NAME` for an imported module m.  Naming a literal, moving the name to another module or
    replacing one spelling by the other leaves every rule with the same text."""
    consts: Dict[str, Dict[str, ast.Constant]] = {}
    for mod, t in trees.items():
        stores: Dict[str, int] = {}
        for n in ast.walk(t):
            if isinstance(n, ast.Name) and isinstance(n.ctx, (ast.Store, ast.Del)):
                stores[n.id] = stores.get(n.id, 0) + 1
            elif isinstance(n, ast.arg):
                stores[n.arg] = stores.get(n.arg, 0) + 1
            elif isinstance(n, (ast.Global, ast.Nonlocal)):
                for nm in n.names:
                    stores[nm] = stores.get(nm, 0) + 2
        for st in t.body:
            nm = val = None
            if isinstance(st, ast.Assign) and len(st.targets) == 1 and isinstance(st.targets[0], ast.Name):
                nm, val = st.targets[0].id, st.value
            elif isinstance(st, ast.AnnAssign) and isinstance(st.target, ast.Name) and st.value is not None:
                nm, val = st.target.id, st.value
            if nm is None or stores.get(nm, 0) != 1:
                continue
            shouting = nm.strip("_").isupper() and len(nm.strip("_")) >= 3
            if not (shouting or _private(nm)):
                continue
            if isinstance(val, ast.Constant) and isinstance(val.value, (str, int)) and not isinstance(val.value, bool):
                consts.setdefault(mod, {})[nm] = val
            elif _atom_table(val) and len(list(ast.walk(val))) < 200:
                # a table of atoms (class names such as ast.If, strings, numbers; nested tuples of those)
                consts.setdefault(mod, {})[nm] = val
    if not consts:
        return 0
    n_sites = 0
    for mod, t in trees.items():
        local: Dict[str, ast.Constant] = dict(consts.get(mod, {}))
        mod_alias: Dict[str, str] = {}
        for st in t.body:
            if isinstance(st, ast.ImportFrom) and st.module:
                src = st.module if st.level == 0 else None
                if src is None:
                    # relative import: resolve against this module's package
                    base_ = mod.split(".")[: -st.level]
                    src = ".".join(base_ + ([st.module] if st.module else []))
                for a in st.names:
                    if src in consts and a.name in consts[src]:
                        local[a.asname or a.name] = consts[src][a.name]
                    full = src + "." + a.name
                    if full in consts:
                        mod_alias[a.asname or a.name] = full
            elif isinstance(st, ast.Import):
                for a in st.names:
                    if a.name in consts and a.asname:
                        mod_alias[a.asname] = a.name
        # names re-bound locally (parameters, loop variables) shadow the constant in that module: skip them
        shadow: Set[str] = set()
        for n in ast.walk(t):
            if isinstance(n, ast.arg) and n.arg in local:
                shadow.add(n.arg)
            elif isinstance(n, ast.Name) and isinstance(n.ctx, ast.Store) and n.id in local and n.id not in consts.get(mod, {}):
                shadow.add(n.id)
        for parent in list(ast.walk(t)):
            for fld, val in ast.iter_fields(parent):
                items = val if isinstance(val, list) else [val]
                for i, v in enumerate(items):
                    new = None
                    if isinstance(v, ast.Name) and isinstance(v.ctx, ast.Load) and v.id in local and v.id not in shadow:
                        new = local[v.id]
                    elif isinstance(v, ast.Attribute) and isinstance(v.ctx, ast.Load) and isinstance(v.value, ast.Name) and v.value.id in mod_alias and v.attr in consts[mod_alias[v.value.id]]:
                        new = consts[mod_alias[v.value.id]][v.attr]
                    if new is not None:
                        c = ast.copy_location(ast.Constant(value=new.value), v) if isinstance(new, ast.Constant) else ast.copy_location(copy.deepcopy(new), v)
                        ast.fix_missing_locations(c)
                        if isinstance(val, list):
                            val[i] = c
                        else:
                            setattr(parent, fld, c)
                        n_sites += 1
    return n_sites


def expand_generator_helpers(trees: Dict[str, ast.Module], anchors: Set[str]) -> List[str]:
    """`for T in gen(args): BODY` for a generator helper of the library (private, or new to the tree; defined
    once; not looked up by a rule) whose `yield E` statements all sit in plain for / if nesting, each as the
    last statement of its block: read as the helper's loops with `T = E; BODY` in place of each yield.
    BODY must not leave the loop (no break / return / yield; `continue` is fine: the yield is the last
    statement of the innermost helper loop or the code after it is none)."""
    base = _baseline_defs()
    wsn = whole_string_names()
    count: Dict[str, int] = {}
    for t in trees.values():
        for n in ast.walk(t):
            if isinstance(n, _FUNC + (ast.ClassDef,)):
                count[n.name] = count.get(n.name, 0) + 1
    gens: Dict[str, Tuple[str, ast.FunctionDef]] = {}
    gen_cls: Dict[str, Optional[ast.ClassDef]] = {}
    closure_home: Dict[str, ast.AST] = {}
    for mod, t in trees.items():
        cands_ = [(fn, None) for fn in t.body] + [(fn, c_) for c_ in t.body if isinstance(c_, ast.ClassDef) for fn in c_.body]
        # a local generator (a closure new to the tree): its sites are in the function that defines it, whose
        # variables it reads under the same names
        for outer_ in ast.walk(t):
            if isinstance(outer_, _FUNC):
                for fn in outer_.body:
                    if isinstance(fn, ast.FunctionDef) and base and fn.name not in base and not fn.args.args and not fn.args.kwonlyargs \
                            and not (_stored_names(fn) & (_names_used(outer_) - _names_used(fn))):
                        cands_.append((fn, None))
                        closure_home[fn.name] = outer_
        for fn, cls_ in cands_:
            if not isinstance(fn, ast.FunctionDef) or count.get(fn.name) != 1 or fn.name in wsn:
                continue
            if cls_ is not None and fn.decorator_list and all(isinstance(d, ast.Name) and d.id == "staticmethod" for d in fn.decorator_list):
                fn_static = True
            else:
                fn_static = False
            if not (_private(fn.name) and fn.name not in anchors or (base and fn.name not in base)):
                continue
            if (fn.decorator_list and not fn_static) or fn.args.vararg or fn.args.kwarg or fn.args.posonlyargs:
                continue
            ys = [n for n in _own_nodes(fn) if isinstance(n, (ast.Yield, ast.YieldFrom))]
            if not ys or any(isinstance(n, ast.YieldFrom) for n in ys) or any(isinstance(n, (ast.Return, ast.While, ast.Try, ast.With, ast.Lambda) + _FUNC) for n in _own_nodes(fn)):
                continue

            def tail_ok(stmts) -> bool:
                for i_, st in enumerate(stmts):
                    if isinstance(st, ast.Expr) and isinstance(st.value, ast.Yield):
                        if i_ != len(stmts) - 1 or st.value.value is None:
                            return False
                    elif isinstance(st, ast.For):
                        if st.orelse or not tail_ok(st.body):
                            return False
                    elif isinstance(st, ast.If):
                        if not tail_ok(st.body) or not tail_ok(st.orelse):
                            return False
                    elif any(isinstance(x, ast.Yield) for x in ast.walk(st)):
                        return False
                return True

            if tail_ok(_helper_body(fn)):
                gens[fn.name] = (mod, fn)
                gen_cls[fn.name] = None if (cls_ is None or fn_static) else cls_
                if cls_ is not None and not fn_static and not fn.args.args:
                    del gens[fn.name]
    notes: List[str] = []
    if not gens:
        return notes
    n_sites: Dict[str, int] = {}
    for mod, t in trees.items():
        for holder in list(ast.walk(t)):
            for fld in ("body", "orelse", "finalbody"):
                seq = getattr(holder, fld, None)
                if not (isinstance(seq, list) and seq and isinstance(seq[0], ast.stmt)):
                    continue
                i = 0
                while i < len(seq):
                    st = seq[i]
                    if isinstance(st, ast.For) and not st.orelse and isinstance(st.iter, ast.Call) and not st.iter.keywords:
                        f = st.iter.func
                        nm = f.id if isinstance(f, ast.Name) else (f.attr if isinstance(f, ast.Attribute) and isinstance(f.value, ast.Name) else None)
                        if nm in gens and gens[nm][1] is not holder:
                            home, g = gens[nm]
                            leaves = [x for s_ in st.body for x in ast.walk(s_) if isinstance(x, (ast.Break, ast.Return, ast.Yield, ast.YieldFrom))]
                            own_breaks = [x for x in leaves if not isinstance(x, ast.Break) or not any(isinstance(a, (ast.For, ast.While)) and any(y is x for y in ast.walk(a)) for s_ in st.body for a in ast.walk(s_))]
                            is_m = gen_cls.get(nm) is not None
                            binding = _bind(g, st.iter, is_m) if (not is_m or isinstance(f, ast.Attribute)) else None
                            if binding is not None and is_m:
                                binding = dict(binding)
                                binding[g.args.args[0].arg] = f.value
                            if binding is not None and not own_breaks and all(_simple_arg(v) for v in binding.values()) and not (_stored_names(g) & set(binding)):
                                suffix = "__g%d" % (sum(map(ord, g.name)) % 97)
                                rename = {s_: s_ + suffix for s_ in _stored_names(g)}
                                sub = _Subst(dict(binding), rename)
                                body = [sub.visit(copy.deepcopy(x)) for x in _helper_body(g)]

                                def put(stmts):
                                    out_ = []
                                    for x in stmts:
                                        if isinstance(x, ast.Expr) and isinstance(x.value, ast.Yield):
                                            asg = ast.Assign(targets=[copy.deepcopy(st.target)], value=x.value.value, lineno=st.lineno)
                                            out_.append(asg)
                                            out_.extend(copy.deepcopy(st.body))
                                        elif isinstance(x, ast.For):
                                            x.body = put(x.body)
                                            out_.append(x)
                                        elif isinstance(x, ast.If):
                                            x.body = put(x.body)
                                            x.orelse = put(x.orelse)
                                            out_.append(x)
                                        elif isinstance(x, ast.AnnAssign) and x.value is None:
                                            continue
                                        else:
                                            out_.append(x)
                                    return out_

                                new = put(body)
                                for x in new:
                                    ast.copy_location(x, st)
                                    ast.fix_missing_locations(x)
                                seq[i:i + 1] = new
                                n_sites[nm] = n_sites.get(nm, 0) + 1
                                i += len(new)
                                continue
                    i += 1
    # comprehension sites:  (.. for b in G(args) ..)  with G = `for v in IT: [if C:] yield E`
    for mod, t in trees.items():
        for comp in [x for x in ast.walk(t) if isinstance(x, (ast.ListComp, ast.SetComp, ast.GeneratorExp, ast.DictComp))]:
            gi = 0
            while gi < len(comp.generators):
                cg = comp.generators[gi]
                it = cg.iter
                if isinstance(it, ast.Call) and not it.keywords and not cg.is_async:
                    f = it.func
                    nm = f.id if isinstance(f, ast.Name) else (f.attr if isinstance(f, ast.Attribute) and _simple_arg(f.value) else None)
                    if nm in gens and not any(comp is x for x in ast.walk(gens[nm][1])):
                        home, g = gens[nm]
                        body = _helper_body(g)
                        body = [x for x in body if not (isinstance(x, ast.AnnAssign) and x.value is None)]
                        if len(body) == 1 and isinstance(body[0], ast.For) and not body[0].orelse:
                            lp = body[0]
                            inner = lp.body
                            cond = None
                            if len(inner) == 1 and isinstance(inner[0], ast.If) and not inner[0].orelse:
                                cond, inner = inner[0].test, inner[0].body
                            if len(inner) == 1 and isinstance(inner[0], ast.Expr) and isinstance(inner[0].value, ast.Yield) and inner[0].value.value is not None:
                                is_m = gen_cls.get(nm) is not None
                                binding = _bind(g, it, is_m) if (not is_m or isinstance(f, ast.Attribute)) else None
                                if binding is not None and is_m:
                                    binding = dict(binding)
                                    binding[g.args.args[0].arg] = f.value
                                if binding is not None and all(_simple_arg(v) for v in binding.values()) and not (_stored_names(g) & set(binding)):
                                    suffix = "__g%d" % (sum(map(ord, g.name)) % 97)
                                    rename = {s_: s_ + suffix for s_ in _stored_names(g)}
                                    sub = _Subst(dict(binding), rename)
                                    y = inner[0].value.value
                                    direct = isinstance(y, ast.Name) and isinstance(lp.target, ast.Name) and y.id == lp.target.id and isinstance(cg.target, ast.Name)
                                    if direct:
                                        rename[lp.target.id] = cg.target.id
                                        sub = _Subst(dict(binding), rename)
                                        new_g = ast.comprehension(target=cg.target, iter=sub.visit(copy.deepcopy(lp.iter)), ifs=([sub.visit(copy.deepcopy(cond))] if cond is not None else []) + list(cg.ifs), is_async=0)
                                        comp.generators[gi] = new_g
                                    else:
                                        tg_ = sub.visit(copy.deepcopy(lp.target))
                                        g1 = ast.comprehension(target=tg_, iter=sub.visit(copy.deepcopy(lp.iter)), ifs=[sub.visit(copy.deepcopy(cond))] if cond is not None else [], is_async=0)
                                        g2 = ast.comprehension(target=cg.target, iter=ast.List(elts=[sub.visit(copy.deepcopy(y))], ctx=ast.Load()), ifs=list(cg.ifs), is_async=0)
                                        comp.generators[gi:gi + 1] = [g1, g2]
                                    ast.fix_missing_locations(comp)
                                    n_sites[nm] = n_sites.get(nm, 0) + 1
                gi += 1
    for nm, k in sorted(n_sites.items()):
        home, g = gens[nm]
        refs = sum(1 for t2 in trees.values() for x in ast.walk(t2) if (isinstance(x, ast.Name) and x.id == nm) or (isinstance(x, ast.Attribute) and x.attr == nm) or (isinstance(x, ast.alias) and x.name == nm))
        if refs == 0:
            for holder_ in [trees[home].body] + [c_.body for c_ in trees[home].body if isinstance(c_, ast.ClassDef)] + ([closure_home[nm].body] if nm in closure_home else []):
                if g in holder_:
                    holder_.remove(g)
                    if not holder_:
                        holder_.append(ast.Pass())
        notes.append(f"{home}: generator helper {nm} -> {k} loop(s) read as its body{', dissolved' if refs == 0 else ''}")
    return notes


def A_dotted(e: ast.AST) -> Optional[str]:
    if isinstance(e, ast.Name):
        return e.id
    if isinstance(e, ast.Attribute):
        b = A_dotted(e.value)
        return f"{b}.{e.attr}" if b else None
    return None


def normalise_varargs(trees: Dict[str, ast.Module]) -> List[str]:
    """`def f(a, *rest)` of the package (a unique name, no **kwargs) whose every call passes plain positional
    arguments: read as `def f(a, rest)` with each call packing its trailing arguments into a tuple display -
    inside the function `rest` is that tuple either way.  Whether a sequence parameter is spelt as varargs is not
    something a rule should see."""
    defs: Dict[str, List[Tuple[ast.FunctionDef, bool]]] = {}
    for t in trees.values():
        for n in ast.walk(t):
            if isinstance(n, ast.ClassDef):
                for s_ in n.body:
                    if isinstance(s_, ast.FunctionDef):
                        static = any(isinstance(d, ast.Name) and d.id == "staticmethod" for d in s_.decorator_list)
                        defs.setdefault(s_.name, []).append((s_, not static))
        for s_ in t.body:
            if isinstance(s_, ast.FunctionDef):
                defs.setdefault(s_.name, []).append((s_, False))
    notes: List[str] = []
    for name, ds in sorted(defs.items()):
        if len(ds) != 1 or name.startswith("__"):
            continue
        fn, is_m = ds[0]
        a = fn.args
        if a.vararg is not None:
            # a definition that stands as it was audited keeps its spelling (the rules know it)
            try:
                from .baseline_defs import DIGESTS as _DG
            except Exception:
                _DG = {}
            if def_digest(fn) in _DG.get(name, []):
                continue
        if a.vararg is None or a.kwarg is not None or a.kwonlyargs or a.defaults or fn.decorator_list and not all(isinstance(d, ast.Name) and d.id == "staticmethod" for d in fn.decorator_list):
            continue
        n_fixed = len(a.args) - (1 if is_m else 0)
        calls = []
        good = True
        for t in trees.values():
            for c in ast.walk(t):
                if isinstance(c, ast.Call):
                    nm = c.func.id if isinstance(c.func, ast.Name) else (c.func.attr if isinstance(c.func, ast.Attribute) else None)
                    if nm == name:
                        if c.keywords or any(isinstance(x, ast.Starred) for x in c.args) or len(c.args) < n_fixed or (is_m and not isinstance(c.func, ast.Attribute)):
                            good = False
                        calls.append(c)
                elif isinstance(c, (ast.Name, ast.Attribute)) and (c.id if isinstance(c, ast.Name) else c.attr) == name and not isinstance(getattr(c, "ctx", None), ast.Store):
                    pass
        # a reference that is not a call (the function passed around) keeps the signature
        n_refs = sum(1 for t in trees.values() for x in ast.walk(t) if (isinstance(x, ast.Name) and x.id == name) or (isinstance(x, ast.Attribute) and x.attr == name))
        if not good or not calls or n_refs != len(calls):
            continue
        for c in calls:
            rest = c.args[n_fixed:]
            tup = ast.Tuple(elts=list(rest), ctx=ast.Load())
            ast.copy_location(tup, rest[0] if rest else c)
            c.args = c.args[:n_fixed] + [tup]
            ast.fix_missing_locations(c)
        a.args.append(ast.arg(arg=a.vararg.arg, annotation=None))
        a.vararg = None
        ast.fix_missing_locations(fn)
        notes.append(f"{name}(*{a.args[-1].arg}) read with a sequence parameter at {len(calls)} call site(s)")
    return notes


def normalise_call_arguments(trees: Dict[str, ast.Module]) -> List[str]:
    """`f(a, kind=k, parent=p)` is read as `f(a, k, p)` for a function / method that the package defines under
    a unique name: whether an argument is passed by position or by keyword (or the parameters were made
    keyword-only) is not something a rule should see.  Only calls whose keywords all name parameters and leave
    no gap before the last one given are rewritten; defaults fill gaps."""
    defs: Dict[str, List[Tuple[ast.FunctionDef, bool]]] = {}
    for t in trees.values():
        for n in ast.walk(t):
            if isinstance(n, ast.ClassDef):
                for s_ in n.body:
                    if isinstance(s_, ast.FunctionDef):
                        static = any(isinstance(d, ast.Name) and d.id in ("staticmethod",) for d in s_.decorator_list)
                        defs.setdefault(s_.name, []).append((s_, not static))
        for s_ in t.body:
            if isinstance(s_, ast.FunctionDef):
                defs.setdefault(s_.name, []).append((s_, False))
    # small record classes (a dataclass without bases, a NamedTuple; no __init__ of their own): the constructor's
    # parameters are the annotated fields in order
    records: Dict[str, List[Tuple[str, Optional[ast.AST]]]] = {}
    n_cls: Dict[str, int] = {}
    for t in trees.values():
        for n in ast.walk(t):
            if isinstance(n, ast.ClassDef):
                n_cls[n.name] = n_cls.get(n.name, 0) + 1
                is_nt = len(n.bases) == 1 and (A_dotted(n.bases[0]) or "").split(".")[-1] == "NamedTuple"
                is_dc = not n.bases and any((A_dotted(d.func if isinstance(d, ast.Call) else d) or "").split(".")[-1] == "dataclass" for d in n.decorator_list)
                if not (is_nt or is_dc) or any(isinstance(s_, ast.FunctionDef) and s_.name in ("__init__", "__new__", "__post_init__") for s_ in n.body):
                    continue
                flds = [(s_.target.id, s_.value) for s_ in n.body if isinstance(s_, ast.AnnAssign) and isinstance(s_.target, ast.Name)]
                if 1 <= len(flds) <= 6 and all(v is None or isinstance(v, ast.Constant) for _k, v in flds):
                    records[n.name] = flds
    n_calls = 0
    for t in trees.values():
        for c in ast.walk(t):
            if not (isinstance(c, ast.Call) and c.keywords):
                continue
            nm = c.func.id if isinstance(c.func, ast.Name) else (c.func.attr if isinstance(c.func, ast.Attribute) else None)
            if nm in records and n_cls.get(nm) == 1 and nm not in defs and not any(k.arg is None for k in c.keywords) and not any(isinstance(x, ast.Starred) for x in c.args):
                params_ = [k for k, _v in records[nm]]
                given_ = {k.arg: k.value for k in c.keywords}
                if len(c.args) <= len(params_) and all(k in params_[len(c.args):] for k in given_):
                    rest_ = params_[len(c.args):]
                    last_ = max(rest_.index(k) for k in given_)
                    dfl_ = dict(records[nm])
                    new_ = list(c.args)
                    good_ = True
                    for pn in rest_[: last_ + 1]:
                        if pn in given_:
                            new_.append(given_[pn])
                        elif dfl_.get(pn) is not None:
                            new_.append(copy.deepcopy(dfl_[pn]))
                        else:
                            good_ = False
                            break
                    if good_:
                        c.args, c.keywords = new_, []
                        ast.fix_missing_locations(c)
                        n_calls += 1
                continue
            cands = defs.get(nm or "", [])
            if len(cands) != 1 or nm.startswith("__"):
                continue
            fn, is_method = cands[0]
            a = fn.args
            if a.vararg or a.kwarg or a.posonlyargs or any(k.arg is None for k in c.keywords) or any(isinstance(x, ast.Starred) for x in c.args):
                continue
            params = [x.arg for x in a.args] + [x.arg for x in a.kwonlyargs]
            if is_method or (isinstance(c.func, ast.Attribute) and params and params[0] in ("self", "cls") and any(isinstance(d, ast.Name) and d.id == "classmethod" for d in fn.decorator_list)):
                params = params[1:]
            elif any(isinstance(d, ast.Name) and d.id == "classmethod" for d in fn.decorator_list):
                params = params[1:]
            dflt: Dict[str, ast.AST] = {}
            pos = [x.arg for x in a.args]
            for pn, d in zip(pos[len(pos) - len(a.defaults):], a.defaults):
                dflt[pn] = d
            for x, d in zip(a.kwonlyargs, a.kw_defaults):
                if d is not None:
                    dflt[x.arg] = d
            given = {k.arg: k.value for k in c.keywords}
            if len(c.args) > len(params) or any(k not in params[len(c.args):] for k in given):
                continue
            rest = params[len(c.args):]
            last = max(rest.index(k) for k in given)
            new_args = list(c.args)
            ok_ = True
            for pn in rest[: last + 1]:
                if pn in given:
                    new_args.append(given[pn])
                elif pn in dflt and isinstance(dflt[pn], ast.Constant):
                    new_args.append(copy.deepcopy(dflt[pn]))
                else:
                    ok_ = False
                    break
            if not ok_:
                continue
            c.args = new_args
            c.keywords = []
            ast.fix_missing_locations(c)
            n_calls += 1
    return [f"{n_calls} call(s) with keyword arguments read positionally"] if n_calls else []


def unroll_dispatch_tables(trees: Dict[str, ast.Module]) -> List[str]:
    """`for a, b in ((p1, f1), (p2, f2), ..): if T(a, ..): S(b, ..); break` over a literal table (written in the
    loop header or bound once to a local just for it) is the if / elif chain it abbreviates: first match wins,
    the loop's else clause is the final else."""
    notes: List[str] = []
    n = 0
    for t in trees.values():
        for fn in [x for x in ast.walk(t) if isinstance(x, _FUNC)]:
            for holder in ast.walk(fn):
                for fld in ("body", "orelse", "finalbody"):
                    seq = getattr(holder, fld, None)
                    if not (isinstance(seq, list) and seq and isinstance(seq[0], ast.stmt)):
                        continue
                    for i, st in enumerate(seq):
                        if not (isinstance(st, ast.For) and len(st.body) == 1 and isinstance(st.body[0], ast.If) and not st.body[0].orelse and st.body[0].body and isinstance(st.body[0].body[-1], (ast.Break, ast.Return))):
                            continue
                        ends_in_return = isinstance(st.body[0].body[-1], ast.Return)
                        if ends_in_return and st.orelse:
                            continue
                        table = st.iter
                        table_def = None
                        if isinstance(table, ast.Name):
                            defs = [a for a in ast.walk(fn) if isinstance(a, ast.Assign) and len(a.targets) == 1 and isinstance(a.targets[0], ast.Name) and a.targets[0].id == table.id]
                            uses = [x for x in ast.walk(fn) if isinstance(x, ast.Name) and x.id == table.id and isinstance(x.ctx, ast.Load)]
                            if len(defs) == 1 and len(uses) == 1:
                                table_def, table = defs[0], defs[0].value
                        if not (isinstance(table, (ast.Tuple, ast.List)) and 1 <= len(table.elts) <= 12):
                            continue
                        tnames = [x.id for x in (st.target.elts if isinstance(st.target, ast.Tuple) else [st.target]) if isinstance(x, ast.Name)]
                        width = len(st.target.elts) if isinstance(st.target, ast.Tuple) else 1
                        if len(tnames) != width:
                            continue
                        rows = []
                        for r in table.elts:
                            cells = list(r.elts) if (width > 1 and isinstance(r, (ast.Tuple, ast.List)) and len(r.elts) == width) else ([r] if width == 1 else None)
                            if cells is None or not all(_simple_arg(c) for c in cells):
                                rows = None
                                break
                            rows.append(cells)
                        if not rows:
                            continue
                        # the loop variables must not be used after the loop
                        later = [x for s2 in seq[i + 1:] for x in ast.walk(s2) if isinstance(x, ast.Name) and x.id in tnames]
                        if later:
                            continue
                        chain = None
                        for cells in reversed(rows):
                            sub = _Subst({nm: c for nm, c in zip(tnames, cells)}, {})
                            test = sub.visit(copy.deepcopy(st.body[0].test))
                            body = [sub.visit(copy.deepcopy(b)) for b in (st.body[0].body if ends_in_return else st.body[0].body[:-1])] or [ast.Pass()]
                            orelse = [chain] if chain is not None else list(st.orelse)
                            chain = ast.If(test=test, body=body, orelse=orelse)
                        ast.copy_location(chain, st)
                        ast.fix_missing_locations(chain)
                        seq[i] = chain
                        if table_def is not None:
                            for h2 in ast.walk(fn):
                                for f2 in ("body", "orelse", "finalbody"):
                                    s3 = getattr(h2, f2, None)
                                    if isinstance(s3, list) and table_def in s3:
                                        s3.remove(table_def)
                                        if not s3:
                                            s3.append(ast.Pass())
                        n += 1
    if n:
        notes.append(f"{n} first-match loop(s) over a literal dispatch table read as if / elif chains")
    return notes


def dissolve_parameter_objects(trees: Dict[str, ast.Module]) -> List[str]:
    """A dataclass the audited tree does not have, with fields only, that merely carries a group of arguments
    through calls (`src = Bundle(a, b, c); f(src, x)` .. `def f(src: Bundle, x): .. src.a ..`) is read as the
    separate arguments it bundles: the parameter becomes one parameter per field, `src.a` becomes `a`, a
    bundle passed on is passed on field by field, the construction disappears."""
    base = _baseline_defs()
    notes: List[str] = []
    if not base:
        return notes
    count: Dict[str, int] = {}
    for t in trees.values():
        for n in ast.walk(t):
            if isinstance(n, _FUNC + (ast.ClassDef,)):
                count[n.name] = count.get(n.name, 0) + 1
    bundles: Dict[str, List[str]] = {}
    for t in trees.values():
        for c in t.body:
            if not isinstance(c, ast.ClassDef) or c.name in base or count.get(c.name) != 1 or c.bases or c.keywords:
                continue
            if not any((isinstance(d, ast.Name) and d.id == "dataclass") or (isinstance(d, ast.Call) and isinstance(d.func, ast.Name) and d.func.id == "dataclass") for d in c.decorator_list):
                continue
            body = [x for x in c.body if not (isinstance(x, ast.Expr) and isinstance(x.value, ast.Constant))]
            if body and all(isinstance(x, ast.AnnAssign) and isinstance(x.target, ast.Name) and x.value is None for x in body):
                bundles[c.name] = [x.target.id for x in body]
    for cname, fields in bundles.items():
        funcs = []  # (function, index of the bundle parameter, parameter name)
        ok_ = True
        for t in trees.values():
            for fn in [n for n in ast.walk(t) if isinstance(n, ast.FunctionDef)]:
                for i, a in enumerate(fn.args.args):
                    ann = a.annotation
                    nm = ann.id if isinstance(ann, ast.Name) else (ann.value if isinstance(ann, ast.Constant) and isinstance(ann.value, str) else None)
                    if nm == cname:
                        funcs.append((fn, i, a.arg))
        if not funcs:
            continue
        fnames = {f.name for f, _i, _p in funcs}
        pos = {f.name: (i - (1 if f.args.args and f.args.args[0].arg in ("self", "cls") and i > 0 else 0)) for f, i, _p in funcs}
        # every use of the parameter: `p.field` or a positional argument of a call of one of these functions
        for fn, i, pn in funcs:
            for n in ast.walk(fn):
                if isinstance(n, ast.Name) and n.id == pn:
                    if not isinstance(n.ctx, ast.Load):
                        ok_ = False
            clash = ({x.id for x in ast.walk(fn) if isinstance(x, ast.Name)} | {a.arg for a in fn.args.args}) & set(fields)
            # `field = p.field` locals are fine (they become self-assignments and are dropped)
            for st in ast.walk(fn):
                if isinstance(st, ast.Assign) and len(st.targets) == 1 and isinstance(st.targets[0], ast.Name) and st.targets[0].id in clash and isinstance(st.value, ast.Attribute) and isinstance(st.value.value, ast.Name) and st.value.value.id == pn and st.value.attr == st.targets[0].id:
                    pass
            stores = {x.id for x in ast.walk(fn) if isinstance(x, ast.Name) and isinstance(x.ctx, ast.Store) and x.id in fields}
            for nm_ in stores:
                defs = [st for st in ast.walk(fn) if isinstance(st, ast.Assign) and any(isinstance(tg, ast.Name) and tg.id == nm_ for tg in st.targets)]
                if not all(isinstance(st.value, ast.Attribute) and isinstance(st.value.value, ast.Name) and st.value.value.id == pn and st.value.attr == nm_ for st in defs):
                    ok_ = False
            if {a.arg for a in fn.args.args} & set(fields):
                ok_ = False
        if not ok_:
            continue
        # rewrite the functions
        for fn, i, pn in funcs:
            new_args = [ast.arg(arg=f_, annotation=None) for f_ in fields]
            nd = len(fn.args.defaults)
            first_default = len(fn.args.args) - nd
            if i >= first_default:
                continue
            fn.args.args[i:i + 1] = new_args

            class R(ast.NodeTransformer):
                def visit_Attribute(self, n):
                    self.generic_visit(n)
                    if isinstance(n.value, ast.Name) and n.value.id == pn and n.attr in fields and isinstance(n.ctx, ast.Load):
                        return ast.copy_location(ast.Name(id=n.attr, ctx=ast.Load()), n)
                    return n

                def visit_Call(self, n):
                    self.generic_visit(n)
                    new = []
                    for a in n.args:
                        if isinstance(a, ast.Name) and a.id == pn:
                            new += [ast.copy_location(ast.Name(id=f_, ctx=ast.Load()), a) for f_ in fields]
                        else:
                            new.append(a)
                    n.args = new
                    return n

            for k_, st in enumerate(list(fn.body)):
                fn.body[k_] = R().visit(st)
            # drop `field = field`
            for holder in ast.walk(fn):
                for fld in ("body", "orelse", "finalbody"):
                    seq = getattr(holder, fld, None)
                    if isinstance(seq, list):
                        seq[:] = [st for st in seq if not (isinstance(st, ast.Assign) and len(st.targets) == 1 and isinstance(st.targets[0], ast.Name) and isinstance(st.value, ast.Name) and st.value.id == st.targets[0].id)] or ([ast.Pass()] if seq and isinstance(seq[0], ast.stmt) else seq)
            ast.fix_missing_locations(fn)
        # construction sites
        n_sites = 0
        for t in trees.values():
            for fn in [n for n in ast.walk(t) if isinstance(n, ast.FunctionDef)]:
                made: Dict[str, List[ast.AST]] = {}
                for st in ast.walk(fn):
                    if isinstance(st, ast.Assign) and len(st.targets) == 1 and isinstance(st.targets[0], ast.Name) and isinstance(st.value, ast.Call) and isinstance(st.value.func, ast.Name) and st.value.func.id == cname:
                        c = st.value
                        vals = list(c.args) + [None] * (len(fields) - len(c.args))
                        for k in c.keywords:
                            if k.arg in fields:
                                vals[fields.index(k.arg)] = k.value
                        if all(v is not None for v in vals) and len(vals) == len(fields):
                            made[st.targets[0].id] = vals
                if not made:
                    continue
                for call in [n for n in ast.walk(fn) if isinstance(n, ast.Call)]:
                    new = []
                    for a in call.args:
                        if isinstance(a, ast.Name) and a.id in made:
                            new += [copy.deepcopy(v) for v in made[a.id]]
                            n_sites += 1
                        else:
                            new.append(a)
                    call.args = new
                for holder in ast.walk(fn):
                    for fld in ("body", "orelse", "finalbody"):
                        seq = getattr(holder, fld, None)
                        if isinstance(seq, list):
                            keep = []
                            for st in seq:
                                if isinstance(st, ast.Assign) and len(st.targets) == 1 and isinstance(st.targets[0], ast.Name) and st.targets[0].id in made and not any(isinstance(x, ast.Name) and x.id == st.targets[0].id and isinstance(x.ctx, ast.Load) for x in ast.walk(fn)):
                                    continue
                                keep.append(st)
                            if len(keep) != len(seq):
                                seq[:] = keep or [ast.Pass()]
                ast.fix_missing_locations(fn)
        notes.append(f"parameter object {cname}({', '.join(fields)}): {len(funcs)} function(s) read with separate parameters, {n_sites} construction site(s) dissolved")
    return notes


def fuse_wrappers(trees: Dict[str, ast.Module]) -> List[str]:
    """An audited definition W that has become a thin wrapper - its body is one call `[return] G(p1, .., pn)` of
    a definition G the audited tree does not have (or that has W's own name in another module: a move), with
    W's own parameters in order - is read with G's body under W's parameter names; other callers of G are
    read as callers of W.  This is the shape "rename / move with a forwarding stub left behind"."""
    base = _baseline_defs()
    notes: List[str] = []
    if not base:
        return notes
    mod_funcs: Dict[str, Dict[str, ast.FunctionDef]] = {m: {s_.name: s_ for s_ in t.body if isinstance(s_, ast.FunctionDef)} for m, t in trees.items()}
    count: Dict[str, int] = {}
    for t in trees.values():
        for n in ast.walk(t):
            if isinstance(n, _FUNC):
                count[n.name] = count.get(n.name, 0) + 1

    def wrapper_call(w: ast.FunctionDef):
        body = [x for x in _helper_body(w) if not isinstance(x, (ast.Import, ast.ImportFrom))]
        if len(body) != 1 or not isinstance(body[0], (ast.Return, ast.Expr)) or not isinstance(body[0].value, ast.Call):
            return None
        c = body[0].value
        if c.keywords and any(k.arg is None for k in c.keywords):
            return None
        params = [a.arg for a in w.args.args] + [a.arg for a in w.args.kwonlyargs]
        args = list(c.args) + [k.value for k in c.keywords]
        if not all(isinstance(a, ast.Name) for a in args):
            return None
        return c, params, [a.id for a in args], body[0]

    for mod, t in trees.items():
        holders: List[Tuple[list, Optional[ast.ClassDef]]] = [(t.body, None)] + [(c.body, c) for c in t.body if isinstance(c, ast.ClassDef)]
        for seq, cls in holders:
            for w in list(seq):
                if not isinstance(w, ast.FunctionDef) or w.name not in base or w.name.startswith("__"):
                    continue
                r = wrapper_call(w)
                if r is None:
                    continue
                c, wparams, argnames, stmt = r
                g = None
                ghome = None
                gcls = None
                f = c.func
                if isinstance(f, ast.Name):
                    # a function of this module, or one imported (at module level or inside the wrapper)
                    cand_mods = [mod]
                    for st in list(t.body) + list(w.body):
                        if isinstance(st, ast.ImportFrom) and st.module and any((a.asname or a.name) == f.id for a in st.names):
                            real = next(a.name for a in st.names if (a.asname or a.name) == f.id)
                            cand_mods = [m for m in trees if m == st.module or m.endswith("." + st.module)] + cand_mods
                            fname = real
                            break
                    else:
                        fname = f.id
                    for m in cand_mods:
                        if fname in mod_funcs.get(m, {}) and mod_funcs[m][fname] is not w:
                            g, ghome = mod_funcs[m][fname], m
                            break
                elif isinstance(f, ast.Attribute) and isinstance(f.value, ast.Name) and cls is not None and wparams and f.value.id == wparams[0]:
                    for s_ in cls.body:
                        if isinstance(s_, ast.FunctionDef) and s_.name == f.attr and s_ is not w:
                            g, ghome, gcls = s_, mod, cls
                            argnames = [wparams[0]] + argnames
                elif isinstance(f, ast.Attribute) and isinstance(f.value, ast.Name) and cls is None:
                    # a module-level function kept as a forwarding name for a static method `Cls.same_or_new_name(..)`
                    for m2, t2_ in trees.items():
                        for c2 in t2_.body:
                            if isinstance(c2, ast.ClassDef) and c2.name == f.value.id:
                                for s_ in c2.body:
                                    if isinstance(s_, ast.FunctionDef) and s_.name == f.attr and any(isinstance(d, ast.Name) and d.id == "staticmethod" for d in s_.decorator_list):
                                        g, ghome, gcls = s_, m2, c2
                elif isinstance(f, ast.Attribute) and isinstance(f.value, ast.Name) and cls is not None and f.value.id == cls.name:
                    # Class.static_helper(..) from a static wrapper of the same class
                    for s_ in cls.body:
                        if isinstance(s_, ast.FunctionDef) and s_.name == f.attr and s_ is not w and any(isinstance(d, ast.Name) and d.id == "staticmethod" for d in s_.decorator_list):
                            g, ghome, gcls = s_, mod, cls
                if g is None or (g.name in base and g.name != w.name) or g.decorator_list and not all(isinstance(d, ast.Name) and d.id == "staticmethod" for d in g.decorator_list):
                    continue
                if g.name != w.name and count.get(g.name, 0) != 1:
                    continue
                gparams = [a.arg for a in g.args.args] + [a.arg for a in g.args.kwonlyargs]
                if len(argnames) != len(gparams) or sorted(set(argnames)) != sorted(set(wparams)) and not set(argnames) <= set(wparams):
                    continue
                if len(set(argnames)) != len(argnames):
                    continue
                # parameters of W that G does not get must not matter; here: every parameter is forwarded
                if set(argnames) != set(wparams):
                    continue
                ren = {gp: an for gp, an in zip(gparams, argnames) if gp != an}
                clash = ({n.id for n in ast.walk(g) if isinstance(n, ast.Name)} | _stored_names(g)) & set(ren.values()) - set(ren)
                if clash - set(gparams):
                    continue
                new_body = copy.deepcopy(list(g.body))
                if ren:
                    for st in new_body:
                        for n in ast.walk(st):
                            if isinstance(n, ast.Name) and n.id in ren:
                                n.id = ren[n.id]
                            elif isinstance(n, ast.arg) and n.arg in ren:
                                n.arg = ren[n.arg]
                keep_imports = [x for x in w.body if isinstance(x, (ast.Import, ast.ImportFrom)) and not any((a.asname or a.name) == getattr(f, "id", None) for a in x.names)]
                w.body = keep_imports + new_body
                # the names G's body needs from its own module
                if ghome != mod:
                    free = {x.id for x in ast.walk(g) if isinstance(x, ast.Name)} - set(gparams) - _stored_names(g)
                    for nm in sorted((free & _module_bindings(trees[ghome])) - _module_bindings(t)):
                        imp = _import_for(trees, ghome, nm) or ast.fix_missing_locations(ast.ImportFrom(module=ghome, names=[ast.alias(name=nm, asname=None)], level=0))
                        t.body.insert(0, imp)
                # other callers of G are callers of W
                w_is_method = cls is not None and not any(isinstance(d, ast.Name) and d.id == "staticmethod" for d in w.decorator_list)
                g_is_method = gcls is not None and not any(isinstance(d, ast.Name) and d.id == "staticmethod" for d in g.decorator_list)
                n_red = 0
                for t2 in trees.values():
                    for call in ast.walk(t2):
                        if not isinstance(call, ast.Call) or any(call is x for x in ast.walk(w)):
                            continue
                        cf = call.func
                        if g_is_method:
                            if isinstance(cf, ast.Attribute) and cf.attr == g.name and g.name != w.name:
                                cf.attr = w.name
                                n_red += 1
                        elif isinstance(cf, ast.Name) and cf.id == g.name and (g.name != w.name or t2 is not t or cls is not None):
                            if w_is_method and not call.keywords and call.args and len(call.args) == len(gparams):
                                order = [argnames.index(p_) for p_ in wparams]  # positions in G's argument list of W's parameters
                                recv = call.args[order[0]]
                                call.func = ast.copy_location(ast.Attribute(value=recv, attr=w.name, ctx=ast.Load()), cf)
                                call.args = [call.args[k_] for k_ in order[1:]]
                                n_red += 1
                            elif not w_is_method and g.name != w.name:
                                cf.id = w.name
                                if argnames != wparams and not call.keywords and len(call.args) == len(gparams):
                                    call.args = [call.args[argnames.index(p_)] for p_ in wparams]
                                n_red += 1
                        elif isinstance(cf, ast.Attribute) and cf.attr == g.name and not g_is_method and g.name != w.name and isinstance(cf.value, ast.Name):
                            cf.attr = w.name
                            if argnames != wparams and not call.keywords and len(call.args) == len(gparams):
                                call.args = [call.args[argnames.index(p_)] for p_ in wparams]
                            n_red += 1
                if gcls is not None and cls is None and not g_is_method:
                    # Cls.g(..) / self.g(..) anywhere are calls of the module-level name
                    for t2 in trees.values():
                        for call in ast.walk(t2):
                            if isinstance(call, ast.Call) and isinstance(call.func, ast.Attribute) and call.func.attr == g.name and isinstance(call.func.value, ast.Name) and call.func.value.id in ("self", "cls", gcls.name) and not any(call is x for x in ast.walk(w)):
                                inside_cls = any(call is x for x in ast.walk(gcls)) or call.func.value.id == gcls.name
                                if inside_cls:
                                    call.func = ast.copy_location(ast.Name(id=w.name, ctx=ast.Load()), call.func)
                                    n_red += 1
                    if g in gcls.body and not any(isinstance(x, ast.Attribute) and x.attr == g.name and isinstance(x.value, ast.Name) and x.value.id in ("self", "cls", gcls.name) for t2 in trees.values() for x in ast.walk(t2) if not any(x is y for y in ast.walk(g))):
                        gcls.body.remove(g)
                        if not gcls.body:
                            gcls.body.append(ast.Pass())
                refs = sum(1 for t2 in trees.values() for x in ast.walk(t2) if (isinstance(x, ast.Name) and x.id == g.name and not any(x is y for y in ast.walk(w))) and g.name != w.name)
                holder = gcls.body if gcls is not None else trees[ghome].body
                if refs == 0 and g in holder and g.name != w.name or (g.name == w.name and g in holder and not any(isinstance(x, ast.Name) and x.id == g.name for t2 in trees.values() for x in ast.walk(t2) if not any(x is y for y in ast.walk(w)))):
                    holder.remove(g)
                    if gcls is not None and not holder:
                        holder.append(ast.Pass())
                ast.fix_missing_locations(w)
                notes.append(f"{mod}: {(cls.name + '.') if cls else ''}{w.name} is a wrapper of {g.name} ({ghome}): read with its body; {n_red} other call(s) redirected")
    return notes


def _baseline_defs() -> Set[str]:
    try:
        from .baseline_defs import DEFS

        return set(DEFS)
    except Exception:
        return set()


def _new_helpers(trees: Dict[str, ast.Module], anchors: Set[str], method_count: Dict[str, int]):
    """Definitions that the audited tree does not have (sa/baseline_defs.py) and that no rule names: a
    helper introduced by a later change, public or private, in whatever module.  It is read through at its
    call sites when its name is defined once in the whole package and its body has one of the helper shapes."""
    base = _baseline_defs()
    if not base:
        return {}, {}
    # a definition the audited tree does not have cannot be one the rules mean, unless a rule looks functions
    # up under that very name (role names such as reverse_lookup)
    anchors = whole_string_names()
    count: Dict[str, int] = {}
    for t in trees.values():
        for n in ast.walk(t):
            if isinstance(n, _FUNC + (ast.ClassDef,)):
                count[n.name] = count.get(n.name, 0) + 1
    out: Dict[str, _Helper] = {}
    home: Dict[str, str] = {}
    for mod, t in trees.items():
        for st in t.body:
            cands = []
            if isinstance(st, ast.FunctionDef):
                cands.append((st, None))
            elif isinstance(st, ast.ClassDef):
                cands += [(s_, st) for s_ in st.body if isinstance(s_, ast.FunctionDef)]
            for fn, cls in cands:
                if fn.name in base or fn.name.startswith("__"):
                    continue
                if any(isinstance(d, ast.Name) and d.id == "classmethod" for d in fn.decorator_list):
                    continue
                k = _classify(fn)
                if k and not _calls_name(fn, fn.name):
                    if cls is not None and not fn.args.args and not fn.decorator_list:
                        continue
                    h_ = _Helper(fn, cls, k)
                    if fn.name not in anchors and count.get(fn.name) == 1:
                        out[fn.name] = h_
                        home[fn.name] = mod
                    if cls is not None and not h_.static:
                        # `self.m(..)` inside the class itself resolves without looking at the name alone
                        out[cls.name + "." + fn.name] = h_
                        home[cls.name + "." + fn.name] = mod
    return out, home


def expand_new_properties(trees: Dict[str, ast.Module], anchors: Set[str], method_count: Dict[str, int]) -> List[str]:
    """`x.p` for a @property p that the audited tree does not define, defined once in the package, whose body
    is a single returned expression over `self`: read as that expression."""
    base = _baseline_defs()
    notes: List[str] = []
    if not base:
        return notes
    anchors = whole_string_names()
    count: Dict[str, int] = {}
    fields: Set[str] = set()
    for t in trees.values():
        for n in ast.walk(t):
            if isinstance(n, _FUNC + (ast.ClassDef,)):
                count[n.name] = count.get(n.name, 0) + 1
            elif isinstance(n, ast.AnnAssign) and isinstance(n.target, ast.Name):
                fields.add(n.target.id)
    props: Dict[str, ast.FunctionDef] = {}
    for t in trees.values():
        for c in ast.walk(t):
            if not isinstance(c, ast.ClassDef):
                continue
            for fn in c.body:
                if not isinstance(fn, ast.FunctionDef) or fn.name in base or fn.name in anchors or fn.name in fields or count.get(fn.name) != 1:
                    continue
                if len(fn.decorator_list) != 1 or not (isinstance(fn.decorator_list[0], ast.Name) and fn.decorator_list[0].id == "property"):
                    continue
                body = _helper_body(fn)
                if len(body) == 1 and isinstance(body[0], ast.Return) and body[0].value is not None and len(fn.args.args) == 1:
                    if not any(isinstance(x, (ast.Lambda, ast.Yield, ast.Await)) for x in ast.walk(body[0].value)):
                        props[fn.name] = fn
    if not props:
        return notes
    n_sites: Dict[str, int] = {}
    for t in trees.values():
        for parent in list(ast.walk(t)):
            if isinstance(parent, ast.FunctionDef) and parent.name in props and props[parent.name] is parent:
                continue
            for fld, val in ast.iter_fields(parent):
                items = val if isinstance(val, list) else [val]
                for i, v in enumerate(items):
                    if isinstance(v, ast.Attribute) and isinstance(v.ctx, ast.Load) and v.attr in props and _simple_arg(v.value):
                        fn = props[v.attr]
                        if any(x is v for x in ast.walk(fn)):
                            continue
                        comp_vars = {x.id for g in ast.walk(fn) if isinstance(g, ast.comprehension) for x in ast.walk(g.target) if isinstance(x, ast.Name)}
                        e = _Subst({fn.args.args[0].arg: v.value}, {c_: c_ + "__p" for c_ in comp_vars}).visit(copy.deepcopy(_helper_body(fn)[0].value))
                        e = ast.copy_location(e, v)
                        ast.fix_missing_locations(e)
                        if isinstance(val, list):
                            val[i] = e
                        else:
                            setattr(parent, fld, e)
                        n_sites[v.attr] = n_sites.get(v.attr, 0) + 1
    for k, v in sorted(n_sites.items()):
        notes.append(f"new property {k}: {v} read(s) replaced by its expression")
    return notes
