"""Statement-level control-flow graph of one function, written for the
statement mix of this library: if/elif/else, for/while with else,
break/continue, return, raise, assert, try/except/finally, with, yield.

Nodes are statements (compound statements contribute their header: the test of
an `if`/`while`, the iterator/target of a `for`).  Two synthetic nodes ENTRY and
EXIT (normal return) and one RAISE (exceptional exit)."""
from __future__ import annotations

import ast
from typing import Callable, Dict, Iterable, List, Optional, Set

from . import astutil as A


class Node:
    __slots__ = ("idx", "stmt", "kind", "succ", "pred", "true_succ", "false_succ")

    def __init__(self, idx: int, stmt: Optional[ast.AST], kind: str) -> None:
        self.idx = idx
        self.stmt = stmt
        self.kind = kind  # 'entry' 'exit' 'raise' 'stmt' 'if' 'while' 'for' 'with' 'try' 'except'
        self.succ: List["Node"] = []
        self.pred: List["Node"] = []
        self.true_succ: Optional["Node"] = None
        self.false_succ: Optional["Node"] = None

    def __repr__(self) -> str:  # pragma: no cover
        s = A.unparse(self.stmt).split("\n")[0][:50] if self.stmt is not None else ""
        return f"<{self.idx}:{self.kind} {s}>"

    @property
    def lineno(self) -> int:
        return A.lineno(self.stmt) if self.stmt is not None else 0

    def exprs(self) -> List[ast.AST]:
        """the expressions evaluated *at this node* (headers only for compounds)"""
        s = self.stmt
        if s is None:
            return []
        if self.kind in ("if", "while"):
            return [s.test]  # type: ignore[attr-defined]
        if self.kind == "for":
            return [s.iter, s.target]  # type: ignore[attr-defined]
        if self.kind == "with":
            out = []
            for it in s.items:  # type: ignore[attr-defined]
                out.append(it.context_expr)
                if it.optional_vars is not None:
                    out.append(it.optional_vars)
            return out
        if self.kind in ("try",):
            return []
        if self.kind == "except":
            return [s.type] if getattr(s, "type", None) is not None else []
        if isinstance(s, (ast.FunctionDef, ast.AsyncFunctionDef, ast.ClassDef)):
            return list(getattr(s, "decorator_list", []))
        return [s]

    def walk(self) -> Iterable[ast.AST]:
        for e in self.exprs():
            yield from A.walk_no_nested(e)


class CFG:
    def __init__(self, fn_node: ast.AST) -> None:
        self.fn = fn_node
        self.nodes: List[Node] = []
        self.entry = self._new(None, "entry")
        self.exit = self._new(None, "exit")
        self.raise_exit = self._new(None, "raise")
        self._stmt_node: Dict[int, Node] = {}
        self._loops: List[tuple] = []  # (header node, break-collector list)
        self._handlers: List[List[Node]] = []  # stack of handler entry lists
        outs = self._seq(A.body_without_docstring(fn_node) if True else [], [self.entry])
        for n in outs:
            self._edge(n, self.exit)
        self._dom: Optional[Dict[Node, Set[Node]]] = None

    # ----------------------------------------------------------------- build
    def _new(self, stmt, kind) -> Node:
        n = Node(len(self.nodes), stmt, kind)
        self.nodes.append(n)
        return n

    def _edge(self, a: Node, b: Node) -> None:
        if b not in a.succ:
            a.succ.append(b)
            b.pred.append(a)

    def _connect(self, preds: List[Node], n: Node) -> None:
        for p in preds:
            self._edge(p, n)

    def _may_raise(self, n: Node) -> None:
        """exception edge from n to the innermost handlers (or RAISE)"""
        if self._handlers:
            for h in self._handlers[-1]:
                self._edge(n, h)

    def _seq(self, stmts: List[ast.stmt], preds: List[Node]) -> List[Node]:
        for s in stmts:
            preds = self._stmt(s, preds)
        return preds

    def _stmt(self, s: ast.stmt, preds: List[Node]) -> List[Node]:
        if isinstance(s, ast.If):
            n = self._new(s, "if")
            self._stmt_node[id(s)] = n
            self._connect(preds, n)
            self._may_raise(n)
            t_out = self._seq(s.body, [n])
            n.true_succ = n.succ[-1] if n.succ and s.body else None
            before = len(n.succ)
            f_out = self._seq(s.orelse, [n]) if s.orelse else [n]
            if s.orelse and len(n.succ) > before:
                n.false_succ = n.succ[-1]
            return t_out + f_out
        if isinstance(s, (ast.While, ast.For, ast.AsyncFor)):
            kind = "while" if isinstance(s, ast.While) else "for"
            n = self._new(s, kind)
            self._stmt_node[id(s)] = n
            self._connect(preds, n)
            self._may_raise(n)
            breaks: List[Node] = []
            self._loops.append((n, breaks))
            b_out = self._seq(s.body, [n])
            self._loops.pop()
            self._connect(b_out, n)
            infinite = isinstance(s, ast.While) and isinstance(s.test, ast.Constant) and bool(s.test.value)
            e_out = [] if infinite else (self._seq(s.orelse, [n]) if s.orelse else [n])
            return e_out + breaks
        if isinstance(s, ast.Break):
            n = self._new(s, "stmt")
            self._stmt_node[id(s)] = n
            self._connect(preds, n)
            if self._loops:
                self._loops[-1][1].append(n)
            return []
        if isinstance(s, ast.Continue):
            n = self._new(s, "stmt")
            self._stmt_node[id(s)] = n
            self._connect(preds, n)
            if self._loops:
                self._edge(n, self._loops[-1][0])
            return []
        if isinstance(s, ast.Return):
            n = self._new(s, "stmt")
            self._stmt_node[id(s)] = n
            self._connect(preds, n)
            self._may_raise(n)
            self._edge(n, self.exit)
            return []
        if isinstance(s, ast.Raise):
            n = self._new(s, "stmt")
            self._stmt_node[id(s)] = n
            self._connect(preds, n)
            if self._handlers:
                for h in self._handlers[-1]:
                    self._edge(n, h)
            else:
                self._edge(n, self.raise_exit)
            return []
        if isinstance(s, (ast.With, ast.AsyncWith)):
            n = self._new(s, "with")
            self._stmt_node[id(s)] = n
            self._connect(preds, n)
            self._may_raise(n)
            return self._seq(s.body, [n])
        if isinstance(s, ast.Try) or s.__class__.__name__ == "TryStar":
            n = self._new(s, "try")
            self._stmt_node[id(s)] = n
            self._connect(preds, n)
            hnodes = []
            for h in s.handlers:  # type: ignore[attr-defined]
                hn = self._new(h, "except")
                self._stmt_node[id(h)] = hn
                hnodes.append(hn)
            self._handlers.append(hnodes)
            self._may_raise(n)
            b_out = self._seq(s.body, [n])  # type: ignore[attr-defined]
            self._handlers.pop()
            o_out = self._seq(s.orelse, b_out) if s.orelse else b_out  # type: ignore[attr-defined]
            h_outs: List[Node] = []
            for h, hn in zip(s.handlers, hnodes):  # type: ignore[attr-defined]
                self._may_raise(hn)
                h_outs += self._seq(h.body, [hn])
            outs = o_out + h_outs
            if s.finalbody:  # type: ignore[attr-defined]
                outs = self._seq(s.finalbody, outs)  # type: ignore[attr-defined]
            return outs
        if isinstance(s, ast.Assert):
            n = self._new(s, "stmt")
            self._stmt_node[id(s)] = n
            self._connect(preds, n)
            is_false = isinstance(s.test, ast.Constant) and not s.test.value
            if self._handlers:
                self._may_raise(n)
            else:
                self._edge(n, self.raise_exit)
            return [] if is_false else [n]
        # simple statement (incl. nested def/class: a binding)
        n = self._new(s, "stmt")
        self._stmt_node[id(s)] = n
        self._connect(preds, n)
        self._may_raise(n)
        return [n]

    # --------------------------------------------------------------- queries
    def node_of(self, node: ast.AST) -> Optional[Node]:
        """CFG node at which the AST node (statement or sub-expression) is evaluated."""
        cur: Optional[ast.AST] = node
        prev: Optional[ast.AST] = None
        while cur is not None and cur is not self.fn:
            n = self._stmt_node.get(id(cur))
            if n is not None:
                if n.kind in ("if", "while") and prev is not None and prev is not cur.test:  # type: ignore[attr-defined]
                    pass  # expression inside a nested statement would have been caught earlier
                return n
            prev = cur
            cur = A.parent(cur)
        return None

    def reachable(self, src: Node, avoid: Callable[[Node], bool] = lambda n: False, *, include_src: bool = False) -> Set[Node]:
        """nodes reachable from src (src's successors onward) without passing
        through a node for which avoid() holds (such nodes are not entered)."""
        seen: Set[Node] = set()
        stack = list(src.succ) if not include_src else [src]
        while stack:
            n = stack.pop()
            if n in seen or avoid(n):
                continue
            seen.add(n)
            stack.extend(n.succ)
        return seen

    def all_paths_pass(self, src: Node, dst: Node, via: Callable[[Node], bool]) -> bool:
        """every path src ->+ dst passes a node satisfying via (src and dst excluded)"""
        return dst not in self.reachable(src, avoid=lambda n: via(n) and n is not dst)

    def dominators(self) -> Dict[Node, Set[Node]]:
        if self._dom is not None:
            return self._dom
        nodes = [n for n in self.nodes if n is self.entry or n.pred]
        dom = {n: set(nodes) for n in nodes}
        dom[self.entry] = {self.entry}
        changed = True
        while changed:
            changed = False
            for n in nodes:
                if n is self.entry:
                    continue
                ps = [dom[p] for p in n.pred if p in dom]
                new = set.intersection(*ps) | {n} if ps else {n}
                if new != dom[n]:
                    dom[n] = new
                    changed = True
        self._dom = dom
        return dom

    def dominates(self, a: Node, b: Node) -> bool:
        return a in self.dominators().get(b, set())

    def loops_containing(self, n: Node) -> List[Node]:
        """loop header nodes (for/while) whose body contains n (innermost first)"""
        out = []
        if n.stmt is None:
            return out
        cur = A.parent(n.stmt)
        child = n.stmt
        while cur is not None and cur is not self.fn:
            if isinstance(cur, (ast.For, ast.While, ast.AsyncFor)) and child in cur.body:
                hn = self._stmt_node.get(id(cur))
                if hn is not None:
                    out.append(hn)
            child = cur
            cur = A.parent(cur)
        return out

    # ------------------------------------------------- reaching definitions
    def defs_at(self, n: Node) -> Dict[str, ast.AST]:
        """names (re)bound at node n -> the binding construct"""
        out: Dict[str, ast.AST] = {}
        s = n.stmt
        if s is None:
            return out

        def targets(t: ast.AST) -> None:
            for x in ast.walk(t):
                if isinstance(x, ast.Name) and isinstance(x.ctx, (ast.Store, ast.Del)):
                    out[x.id] = s

        if n.kind == "for":
            targets(s.target)  # type: ignore[attr-defined]
        elif n.kind == "with":
            for it in s.items:  # type: ignore[attr-defined]
                if it.optional_vars is not None:
                    targets(it.optional_vars)
        elif n.kind == "except":
            if getattr(s, "name", None):
                out[s.name] = s  # type: ignore[attr-defined]
        elif n.kind == "stmt":
            if isinstance(s, ast.Assign):
                for t in s.targets:
                    targets(t)
            elif isinstance(s, (ast.AugAssign, ast.AnnAssign)):
                if isinstance(s.target, ast.Name) and (not isinstance(s, ast.AnnAssign) or s.value is not None):
                    out[s.target.id] = s
            elif isinstance(s, (ast.FunctionDef, ast.AsyncFunctionDef, ast.ClassDef)):
                out[s.name] = s
            elif isinstance(s, (ast.Import, ast.ImportFrom)):
                for a in s.names:
                    out[a.asname or a.name.split(".")[0]] = s
            elif isinstance(s, ast.Delete):
                for t in s.targets:
                    targets(t)
        for e in n.walk():
            if isinstance(e, ast.NamedExpr) and isinstance(e.target, ast.Name):
                out[e.target.id] = s
        return out

    def reaching(self) -> Dict[Node, Dict[str, Set[Node]]]:
        """IN sets: for each node, name -> set of nodes whose definition of the
        name may reach the node's entry (ENTRY stands for parameters / free)."""
        if hasattr(self, "_reach"):
            return self._reach  # type: ignore[has-type]
        IN: Dict[Node, Dict[str, Set[Node]]] = {n: {} for n in self.nodes}
        OUT: Dict[Node, Dict[str, Set[Node]]] = {n: {} for n in self.nodes}
        gens = {n: self.defs_at(n) for n in self.nodes}
        work = list(self.nodes)
        while work:
            n = work.pop(0)
            new_in: Dict[str, Set[Node]] = {}
            for p in n.pred:
                for k, v in OUT[p].items():
                    new_in.setdefault(k, set()).update(v)
            IN[n] = new_in
            new_out = {k: set(v) for k, v in new_in.items()}
            for name in gens[n]:
                new_out[name] = {n}
            if new_out != OUT[n]:
                OUT[n] = new_out
                for sx in n.succ:
                    if sx not in work:
                        work.append(sx)
        self._reach = IN
        return IN

    def reaching_defs(self, use: ast.AST, name: Optional[str] = None) -> Set[Node]:
        """definition nodes of `name` (default: the Name node `use`) reaching the
        statement in which `use` occurs; ENTRY in the set = parameter / closure /
        undefined on some path."""
        n = self.node_of(use)
        if n is None:
            return set()
        nm = name or (use.id if isinstance(use, ast.Name) else None)
        if nm is None:
            return set()
        r = self.reaching()[n].get(nm)
        if not r:
            return {self.entry}
        # is there a path from ENTRY to n without any def of nm?  approximated by: any def-free path
        defs = {d for d in self.nodes if nm in self.defs_at(d)}
        if n in self.reachable(self.entry, avoid=lambda x: x in defs and x is not n) or n is self.entry:
            return set(r) | {self.entry}
        return set(r)


_CACHE: Dict[int, CFG] = {}


def cfg_of(fn_node: ast.AST) -> CFG:
    c = _CACHE.get(id(fn_node))
    if c is None or c.fn is not fn_node:
        c = CFG(fn_node)
        _CACHE[id(fn_node)] = c
    return c
