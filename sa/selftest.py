"""Mutant self-test stage (thorough tier).  Filled in later."""
from typing import Dict, List


def run(rule_ids: List[str], jobs: int = 16) -> Dict[str, object]:
    return {"variants": 0, "failures": []}
