"""Mutant self-test stage (thorough tier): the checker tested both ways.

For every variant of sa/mutants.py relevant to the rules under test: copy the
library sources to a scratch directory (outside /repo and /verif), apply the
edit, run the rules on the copy, delete the copy.  A breaking variant must
produce a violation that the unchanged tree does not have, from one of the rules
it names; a benign variant must produce none and must stay analysable.

The expectations of the catalogue were confirmed against a reference tree; the
stage is skipped (with a note) when the analysed sources differ from it, so that
a changed repository can never fail the *checker's* self-test."""
from __future__ import annotations

import ast
import hashlib
import json
import os
import shutil
import sys
import tempfile
from concurrent.futures import ProcessPoolExecutor
from typing import Dict, List, Optional, Set, Tuple

from . import report as R
from .model import PKG, REPO, AnalysisError

REF = os.path.join(R.VERIF, "mutants", "reference.json")


def library_files(repo: str = REPO) -> List[str]:
    out = []
    root = os.path.join(repo, PKG)
    for dp, dn, fn in os.walk(root):
        dn[:] = sorted(d for d in dn if d not in ("tests", "__pycache__"))
        for f in sorted(fn):
            if f.endswith(".py"):
                out.append(os.path.relpath(os.path.join(dp, f), repo))
    return out


def digest(repo: str = REPO) -> str:
    h = hashlib.sha256()
    for rel in library_files(repo):
        h.update(rel.encode())
        h.update(open(os.path.join(repo, rel), "rb").read())
    return h.hexdigest()


def _rename_locals(src: str, func: str) -> str:
    tree = ast.parse(src)
    for node in ast.walk(tree):
        if isinstance(node, ast.FunctionDef) and node.name == func:
            params = {a.arg for a in node.args.args}
            stores = {n.id for n in ast.walk(node) if isinstance(n, ast.Name) and isinstance(n.ctx, ast.Store)}
            nested = {n.name for n in ast.walk(node) if isinstance(n, ast.FunctionDef) and n is not node}
            ren = {s: s + "_x" for s in stores - params - nested}
            for n in ast.walk(node):
                if isinstance(n, ast.Name) and n.id in ren:
                    n.id = ren[n.id]
    return ast.unparse(tree) + "\n"


def make_variant(m: Dict, repo: str = REPO) -> Optional[str]:
    """scratch copy of the library with the edit applied; None when the anchor is gone"""
    tmp = tempfile.mkdtemp(prefix="sa_variant_")
    try:
        for rel in library_files(repo):
            dst = os.path.join(tmp, rel)
            os.makedirs(os.path.dirname(dst), exist_ok=True)
            shutil.copyfile(os.path.join(repo, rel), dst)
        path = os.path.join(tmp, PKG, m["file"])
        src = open(path).read()
        if m["old"] is None and m["id"] == "ok-rename-propagator":
            # rename a function in every library file
            for rel in library_files(repo):
                pth = os.path.join(tmp, rel)
                txt = open(pth).read()
                if "update_exiting" in txt:
                    open(pth, "w").write(txt.replace("update_exiting", "propagate_to_exiting_block"))
            return tmp
        if m["old"] is None:
            new = _rename_locals(src, "loop_restructure_helper")
        else:
            if src.count(m["old"]) != 1:
                shutil.rmtree(tmp, ignore_errors=True)
                return None
            new = src.replace(m["old"], m["new"])
        try:
            ast.parse(new)
        except SyntaxError:
            shutil.rmtree(tmp, ignore_errors=True)
            return None
        open(path, "w").write(new)
        return tmp
    except Exception:
        shutil.rmtree(tmp, ignore_errors=True)
        raise


def seeded_variants(rule_ids: List[str]) -> List[Dict]:
    """kept seeded changes (independent sub-agents, /verif/seeded) whose recorded detection involves one of the rules"""
    out = []
    root = os.path.join(R.VERIF, "seeded")
    if not os.path.isdir(root):
        return out
    for sid in sorted(os.listdir(root)):
        mp = os.path.join(root, sid, "meta.json")
        pp = os.path.join(root, sid, "patch.diff")
        if not (os.path.exists(mp) and os.path.exists(pp)):
            continue
        try:
            meta = json.load(open(mp))
        except Exception:
            continue
        rules = sorted({r for v in meta.get("detected_by", {}).values() if v.get("exit") == 1 for r in v.get("rules", [])})
        if rules and set(rules) & set(rule_ids):
            out.append({"id": "seed:" + sid, "kind": "breaking", "patch": pp, "rules": rules, "file": None, "old": None, "new": None})
    return out


def make_seed_variant(m: Dict, repo: str = REPO) -> Optional[str]:
    import subprocess

    tmp = tempfile.mkdtemp(prefix="sa_variant_")
    for rel in library_files(repo):
        dst = os.path.join(tmp, rel)
        os.makedirs(os.path.dirname(dst), exist_ok=True)
        shutil.copyfile(os.path.join(repo, rel), dst)
    r = subprocess.run(["git", "apply", "--include=numba_scfg/*", m["patch"]], cwd=tmp, capture_output=True, text=True)
    if r.returncode != 0:
        shutil.rmtree(tmp, ignore_errors=True)
        return None
    return tmp


def run_rules_on(repo: str, rule_ids: List[str]) -> Dict[str, object]:
    from .context import Ctx
    from .rules import RULES, load_all
    from . import cfg as cfgmod

    load_all()
    cfgmod._CACHE.clear()
    viol: List[str] = []
    unres: List[str] = []
    errors: List[str] = []
    try:
        ctx = Ctx(repo=repo, tier="quick")
    except AnalysisError as e:
        return {"violations": [], "unresolved": [], "errors": [f"model: {e}"]}
    audit = R.load_audit()
    known, _ = R.load_known()
    for rid in rule_ids:
        if rid not in RULES:
            continue
        try:
            obs = RULES[rid][0](ctx)
        except AnalysisError as e:
            errors.append(f"{rid}: {e}")
            continue
        except Exception as e:  # a crash of the checker on a variant is a self-test failure
            errors.append(f"{rid}: internal error {type(e).__name__}: {e}")
            continue
        for a in audit:
            a.used = 0
        for k in known:
            k.used = 0
        R.triage(obs, "", audit, known)
        for o in obs:
            if o.state == "violation":
                viol.append(o.ident())
            elif o.state == "unresolved":
                unres.append(o.ident())
    return {"violations": viol, "unresolved": unres, "errors": errors}


def _job(args) -> Dict[str, object]:
    m, rule_ids, repo = args
    tmp = make_seed_variant(m, repo) if m.get("patch") else make_variant(m, repo)
    if tmp is None:
        return {"id": m["id"], "skipped": True}
    try:
        res = run_rules_on(tmp, rule_ids)
    finally:
        shutil.rmtree(tmp, ignore_errors=True)
    res["id"] = m["id"]
    return res


def evaluate(rule_ids: List[str], jobs: int = 16, only: Optional[Set[str]] = None, all_rules: bool = False) -> Dict[str, object]:
    from .mutants import MUTANTS
    from .rules import RULES, load_all

    load_all()
    run_ids = sorted(RULES) if all_rules else list(rule_ids)
    base = run_rules_on(REPO, run_ids)
    base_v = set(base["violations"])
    todo = []
    for m in MUTANTS:
        if only and m["id"] not in only:
            continue
        if m["kind"] == "breaking" and not (set(m["rules"]) & set(rule_ids)):
            continue
        todo.append((m, run_ids, REPO))
    seeds = [] if only else seeded_variants(rule_ids)
    for m in seeds:
        todo.append((m, run_ids, REPO))
    results = []
    if jobs > 1 and len(todo) > 1:
        with ProcessPoolExecutor(max_workers=jobs) as ex:
            results = list(ex.map(_job, todo))
    else:
        results = [_job(t) for t in todo]
    by_id = {m["id"]: m for m in MUTANTS}
    by_id.update({m["id"]: m for m in seeds})
    failures: List[str] = []
    table = []
    for r in results:
        m = by_id[r["id"]]
        if r.get("skipped"):
            table.append({"id": m["id"], "kind": m["kind"], "result": "skipped (anchor text not present)"})
            continue
        new_v = [v for v in r["violations"] if v not in base_v]
        fired = sorted({v.split("|")[0] for v in new_v})
        row = {"id": m["id"], "kind": m["kind"], "expected": m["rules"], "fired": fired, "unresolved": len(r["unresolved"]), "errors": r["errors"]}
        if m["kind"] == "breaking":
            expected_here = [x for x in m["rules"] if x in run_ids]
            caught = bool(set(fired) & set(expected_here))
            soft = bool(r["errors"] or r["unresolved"])
            row["result"] = "caught" if caught else ("analysis-error" if soft else "MISSED")
            if not caught and not (soft and m["id"] in ("table1-forward-cond",)):
                failures.append(f"breaking variant {m['id']} not reported by {expected_here} (fired {fired}, errors {r['errors'][:1]})")
        else:
            quiet = not new_v and not r["errors"] and not r["unresolved"]
            row["result"] = "silent" if quiet else "FALSE ALARM"
            if not quiet:
                failures.append(f"benign variant {m['id']} raised {new_v[:2] or r['errors'][:1] or r['unresolved'][:1]}")
        table.append(row)
    return {"variants": len(results), "failures": failures, "table": table, "baseline_violations": sorted(base_v)}


def run(rule_ids: List[str], jobs: int = 16) -> Dict[str, object]:
    ref = json.load(open(REF)) if os.path.exists(REF) else None
    cur = digest()
    if ref is None:
        return {"variants": 0, "failures": [], "note": "no reference digest recorded: self-test stage skipped"}
    if ref.get("digest") != cur:
        return {"variants": 0, "failures": [], "note": "the analysed sources differ from the reference tree the catalogue was confirmed on: self-test stage skipped (it tests the checker, not the repository)", "reference": ref.get("digest"), "current": cur}
    res = evaluate(rule_ids, jobs=jobs)
    res["reference"] = cur
    return res


def main(argv: List[str]) -> int:
    """python -m sa.selftest [--record] [--only id,id] : run the whole catalogue with all rules"""
    from .rules import RULES, load_all

    load_all()
    only = None
    if "--only" in argv:
        only = set(argv[argv.index("--only") + 1].split(","))
    res = evaluate(sorted(RULES), jobs=int(os.environ.get("SA_JOBS", "16")), only=only, all_rules=True)
    for row in res["table"]:
        print(f"{row['result']:12s} {row['kind']:8s} {row['id']:36s} expected={row.get('expected')} fired={row.get('fired')} {('errors=' + str(row.get('errors'))) if row.get('errors') else ''}")
    print(f"{res['variants']} variants, {len(res['failures'])} failures")
    for f in res["failures"]:
        print("  FAIL", f)
    if "--record" in argv and not res["failures"]:
        os.makedirs(os.path.dirname(REF), exist_ok=True)
        json.dump({"digest": digest(), "variants": res["variants"], "table": res["table"]}, open(REF, "w"), indent=1)
        print("reference recorded")
    return 1 if res["failures"] else 0


if __name__ == "__main__":
    sys.exit(main(sys.argv[1:]))
