"""Whole-program call graph with callees resolved through local types.

Dynamic dispatch on a receiver of class C expands to the method of C (found
through the MRO) and to every override in a subclass of C.  Besides explicit
calls, the protocol methods the library relies on are followed: subscripts
(__getitem__), iteration (__iter__), `in` (__contains__), len(), property
reads, constructors (__init__ / __post_init__), Mapping helpers
(.items/.values/.keys -> __iter__, __getitem__)."""
from __future__ import annotations

import ast
from typing import Dict, List, Optional, Set, Tuple

from . import astutil as A
from .model import ClassInfo, FunctionInfo, Program
from .types import Typer, members, strip_none


class CallSite:
    __slots__ = ("caller", "node", "callees", "text")

    def __init__(self, caller: FunctionInfo, node: ast.AST, callees: List[FunctionInfo]) -> None:
        self.caller = caller
        self.node = node
        self.callees = callees
        self.text = A.unparse(node)[:80]


class CallGraph:
    def __init__(self, prog: Program, typer: Typer) -> None:
        self.prog = prog
        self.typer = typer
        self.sites: Dict[FunctionInfo, List[CallSite]] = {}
        self.unresolved: Dict[FunctionInfo, List[str]] = {}
        self.edges: Dict[FunctionInfo, Set[FunctionInfo]] = {}
        self.callers: Dict[FunctionInfo, List[CallSite]] = {}
        for fn in prog.functions:
            self._scan(fn)
        for fn, sites in self.sites.items():
            for s in sites:
                for c in s.callees:
                    self.callers.setdefault(c, []).append(s)

    # ---------------------------------------------------------------- helpers
    def _methods(self, c: ClassInfo, name: str) -> List[FunctionInfo]:
        out: List[FunctionInfo] = []
        m = c.find_method(name)
        if m is not None:
            out.append(m)
        for sub in self.prog.subclasses(c, strict=True):
            if name in sub.methods and sub.methods[name] not in out:
                out.append(sub.methods[name])
        return out

    def _cls_methods_of_type(self, t: tuple, name: str) -> List[FunctionInfo]:
        out: List[FunctionInfo] = []
        for mt in members(strip_none(t)):
            if mt[0] == "cls" and mt[1] in self.prog.classes:
                for f in self._methods(self.prog.classes[mt[1]], name):
                    if f not in out:
                        out.append(f)
        return out

    def resolve_call(self, fn: FunctionInfo, call: ast.Call) -> Tuple[List[FunctionInfo], bool]:
        """(callees inside the library, resolved?)  resolved is False when the
        callee expression has an unknown type (may or may not be library code)."""
        env = self.typer.env(fn)
        ft = self.typer.type_of(call.func, env, fn)
        out: List[FunctionInfo] = []
        resolved = True
        for t in members(ft):
            k = t[0]
            if k == "func":
                out.append(t[1])
            elif k == "bound":
                recv, fi = t[1], t[2]
                if recv[0] == "cls" and recv[1] in self.prog.classes:
                    for f in self._methods(self.prog.classes[recv[1]], fi.name):
                        if f not in out:
                            out.append(f)
                else:
                    out.append(fi)
            elif k == "type":
                c = self.prog.classes.get(t[1])
                if c is not None:
                    for nm in ("__init__", "__post_init__"):
                        m = c.find_method(nm)
                        if m is not None and m not in out:
                            out.append(m)
            elif k == "bmeth":
                base, name = t[1], t[2]
                # Mapping helpers on a library class with a dict base
                pass
            elif k == "any":
                resolved = False
        # an instance of a library class handed to an un-annotated parameter
        # escapes: any of its methods may be invoked by the callee
        for callee in list(out):
            params = [a for a in callee.params if a.arg not in ("self", "cls")]
            for i, arg in enumerate(call.args):
                if i < len(params) and params[i].annotation is None:
                    at = self.typer.type_of(arg, env, fn)
                    for mt in members(strip_none(at)):
                        if mt[0] == "cls" and mt[1] in self.prog.classes:
                            for meth in self.prog.classes[mt[1]].methods.values():
                                if meth not in out:
                                    out.append(meth)
        if isinstance(call.func, ast.Attribute) and A.dotted(call.func.value) == "object":
            resolved = True
        # Mapping helpers: x.items()/values()/keys() where x is a library class
        if isinstance(call.func, ast.Attribute) and call.func.attr in ("items", "values", "keys", "get"):
            rt = self.typer.type_of(call.func.value, env, fn)
            for nm in ("__iter__", "__getitem__"):
                for f in self._cls_methods_of_type(rt, nm):
                    if f not in out:
                        out.append(f)
        # builtins that invoke protocol methods of their argument
        if isinstance(call.func, ast.Name) and call.func.id in ("len", "iter", "list", "dict", "tuple", "sorted", "set", "next") and call.args:
            at = self.typer.type_of(call.args[0], env, fn)
            for nm in {"len": ["__len__"]}.get(call.func.id, ["__iter__"]):
                for f in self._cls_methods_of_type(at, nm):
                    if f not in out:
                        out.append(f)
            resolved = True
        if isinstance(call.func, ast.Name) and call.func.id not in env and ft == ("any",):
            # builtin or unknown global
            import builtins

            if hasattr(builtins, call.func.id):
                resolved = True
        return out, resolved

    def _scan(self, fn: FunctionInfo) -> None:
        env = self.typer.env(fn)
        sites: List[CallSite] = []
        unres: List[str] = []
        for node in A.walk_no_nested(fn.node):
            if isinstance(node, (ast.FunctionDef, ast.AsyncFunctionDef, ast.ClassDef, ast.Lambda)) and node is not fn.node:
                continue
            cal: List[FunctionInfo] = []
            if isinstance(node, ast.Call):
                cal, res = self.resolve_call(fn, node)
                if not res and not cal:
                    unres.append(A.unparse(node.func))
            elif isinstance(node, ast.Attribute) and isinstance(node.ctx, ast.Load):
                bt = self.typer.type_of(node.value, env, fn)
                for f in self._cls_methods_of_type(bt, node.attr):
                    if f.is_property:
                        cal.append(f)
            elif isinstance(node, ast.Subscript):
                bt = self.typer.type_of(node.value, env, fn)
                cal = self._cls_methods_of_type(bt, "__getitem__")
            elif isinstance(node, (ast.For, ast.comprehension)):
                bt = self.typer.type_of(node.iter, env, fn)
                cal = self._cls_methods_of_type(bt, "__iter__")
            elif isinstance(node, ast.YieldFrom):
                bt = self.typer.type_of(node.value, env, fn)
                cal = self._cls_methods_of_type(bt, "__iter__")
            elif isinstance(node, ast.Compare) and any(isinstance(o, (ast.In, ast.NotIn)) for o in node.ops):
                for c in node.comparators:
                    bt = self.typer.type_of(c, env, fn)
                    cal += self._cls_methods_of_type(bt, "__contains__")
            if cal:
                sites.append(CallSite(fn, node, cal))
        self.sites[fn] = sites
        self.unresolved[fn] = unres
        self.edges[fn] = {c for s in sites for c in s.callees}

    # ---------------------------------------------------------------- queries
    def reachable_from(self, roots: List[FunctionInfo]) -> Set[FunctionInfo]:
        seen: Set[FunctionInfo] = set()
        stack = list(roots)
        while stack:
            f = stack.pop()
            if f in seen:
                continue
            seen.add(f)
            stack.extend(self.edges.get(f, ()))
        return seen

    def path(self, root: FunctionInfo, target: FunctionInfo) -> Optional[List[FunctionInfo]]:
        prev: Dict[FunctionInfo, Optional[FunctionInfo]] = {root: None}
        queue = [root]
        while queue:
            f = queue.pop(0)
            if f == target:
                out = []
                cur: Optional[FunctionInfo] = f
                while cur is not None:
                    out.append(cur)
                    cur = prev[cur]
                return list(reversed(out))
            for c in sorted(self.edges.get(f, ()), key=lambda x: x.qualname):
                if c not in prev:
                    prev[c] = f
                    queue.append(c)
        return None

    def call_sites_of(self, target: FunctionInfo) -> List[CallSite]:
        return [s for s in self.callers.get(target, []) if isinstance(s.node, ast.Call)]
