"""Ground truth that lives in the interpreter, not in the repository: the
node classes of `ast` and the jump / cache metadata of `opcode`.

The running interpreter (the one the repository is installed for) is always
used; further interpreters are queried through a stdlib-only dump script."""
from __future__ import annotations

import json
import os
import subprocess
import sys
from typing import Dict, List, Optional

_DUMP = r'''
import ast, dis, opcode, json, sys
def tree(base):
    out = {}
    def rec(c):
        out[c.__name__] = {"bases": [b.__name__ for b in c.__mro__[1:] if b is not object], "fields": list(getattr(c, "_fields", ())), "abstract": bool(c.__subclasses__()) and c in (ast.stmt, ast.expr, ast.AST, ast.mod, ast.expr_context, ast.boolop, ast.operator, ast.unaryop, ast.cmpop)}
        for s in c.__subclasses__():
            rec(s)
    rec(base)
    return out
ops = {}
caches = getattr(opcode, "_inline_cache_entries", None)
for name, num in opcode.opmap.items():
    c = 0
    if isinstance(caches, dict):
        c = caches.get(name, 0)
    elif caches is not None:
        try: c = caches[num]
        except Exception: c = 0
    ops[name] = {"num": num, "jrel": num in opcode.hasjrel, "jabs": num in opcode.hasjabs, "caches": c,
                 "pseudo": num >= 256 or name in getattr(opcode, "_pseudo_ops", {})}
json.dump({"version": list(sys.version_info[:3]), "ast": tree(ast.AST), "opcodes": ops}, sys.stdout)
'''


def _dump(exe: str) -> Optional[dict]:
    try:
        out = subprocess.run([exe, "-I", "-c", _DUMP], capture_output=True, text=True, timeout=30)
        if out.returncode != 0:
            return None
        return json.loads(out.stdout)
    except Exception:
        return None


_cache: Dict[str, dict] = {}


def interpreters() -> List[str]:
    """interpreters to use as oracle: the repository's own, plus 3.11 if present"""
    cands = []
    for exe in ("/venv/bin/python", sys.executable):
        if os.path.exists(exe) and exe not in cands:
            cands.append(exe)
            break
    for exe in ("/usr/bin/python3.11", "/usr/local/bin/python3.11"):
        if os.path.exists(exe):
            cands.append(exe)
            break
    return cands


def oracle(exe: Optional[str] = None) -> dict:
    exe = exe or interpreters()[0]
    if exe not in _cache:
        d = _dump(exe)
        if d is None:
            from .model import AnalysisError

            raise AnalysisError(f"interpreter oracle {exe} could not be queried")
        _cache[exe] = d
    return _cache[exe]


class AstHierarchy:
    """class lattice of the interpreter's ast module"""

    def __init__(self, data: dict) -> None:
        self.data = data["ast"]

    def concrete_subclasses(self, base: str) -> List[str]:
        return sorted(n for n, d in self.data.items() if base in d["bases"] and not d.get("abstract"))

    def _has_sub(self, name: str) -> bool:
        return any(name in d["bases"] for d in self.data.values())

    def is_sub(self, k: str, c: str) -> bool:
        k, c = k.split(".")[-1], c.split(".")[-1]
        if k == c:
            return True
        d = self.data.get(k)
        return bool(d) and c in d["bases"]

    def fields(self, k: str) -> List[str]:
        return list(self.data.get(k.split(".")[-1], {}).get("fields", []))

    def known(self, c: str) -> bool:
        return c.split(".")[-1] in self.data
