"""Small AST helpers shared by every rule."""
from __future__ import annotations

import ast
import copy
from typing import Iterable, Iterator, Optional


def set_parents(tree: ast.AST) -> None:
    for node in ast.walk(tree):
        for child in ast.iter_child_nodes(node):
            child._parent = node  # type: ignore[attr-defined]


def parent(node: ast.AST) -> Optional[ast.AST]:
    return getattr(node, "_parent", None)


def ancestors(node: ast.AST) -> Iterator[ast.AST]:
    p = parent(node)
    while p is not None:
        yield p
        p = parent(p)


def enclosing_stmt(node: ast.AST) -> Optional[ast.stmt]:
    cur: Optional[ast.AST] = node
    while cur is not None and not isinstance(cur, ast.stmt):
        cur = parent(cur)
    return cur  # type: ignore[return-value]


def enclosing_function(node: ast.AST) -> Optional[ast.AST]:
    for a in ancestors(node):
        if isinstance(a, (ast.FunctionDef, ast.AsyncFunctionDef, ast.Lambda)):
            return a
    return None


def unparse(node: ast.AST) -> str:
    try:
        return ast.unparse(node)
    except Exception:  # pragma: no cover
        return ast.dump(node)


def dotted(node: ast.AST) -> Optional[str]:
    """'a.b.c' for Name/Attribute chains, else None."""
    parts = []
    cur = node
    while isinstance(cur, ast.Attribute):
        parts.append(cur.attr)
        cur = cur.value
    if isinstance(cur, ast.Name):
        parts.append(cur.id)
        return ".".join(reversed(parts))
    return None


def call_name(node: ast.AST) -> Optional[str]:
    """Name of the callee for Call nodes: 'f' or 'obj.m' (dotted), else None."""
    if isinstance(node, ast.Call):
        return dotted(node.func)
    return None


def method_name(node: ast.AST) -> Optional[str]:
    """Last attribute of a method call `x.y.m(...)` -> 'm'."""
    if isinstance(node, ast.Call) and isinstance(node.func, ast.Attribute):
        return node.func.attr
    return None


def const_str(node: ast.AST) -> Optional[str]:
    if isinstance(node, ast.Constant) and isinstance(node.value, str):
        return node.value
    return None


def names_in(node: ast.AST) -> set[str]:
    return {n.id for n in ast.walk(node) if isinstance(n, ast.Name)}


def walk_no_nested(node: ast.AST, *, include_self: bool = True) -> Iterator[ast.AST]:
    """ast.walk that does not descend into nested function/class definitions
    (the root itself may be a function)."""
    stack = [node]
    first = True
    while stack:
        cur = stack.pop()
        if not first and isinstance(
            cur, (ast.FunctionDef, ast.AsyncFunctionDef, ast.ClassDef, ast.Lambda)
        ):
            # yield the definition node itself but not its body
            yield cur
            continue
        if include_self or not first:
            yield cur
        first = False
        stack.extend(reversed(list(ast.iter_child_nodes(cur))))


def alpha_key(node: ast.AST, keep: Iterable[str] = ()) -> str:
    """alpha-normalised text of an expression/statement: local names are
    renamed v1, v2 ... by first occurrence (names in `keep`, attribute names,
    keyword names and constants are kept)."""
    keep = set(keep)
    # a private copy without the parent links (deepcopy would follow them)
    src = unparse(node)
    try:
        if isinstance(node, ast.expr):
            node = ast.parse(src, mode="eval").body
        else:
            mod = ast.parse(src)
            node = mod.body[0] if len(mod.body) == 1 else mod
    except SyntaxError:
        return " ".join(src.split())
    mapping: dict[str, str] = {}

    class R(ast.NodeTransformer):
        def visit_Name(self, n: ast.Name) -> ast.AST:
            if n.id in keep or n.id in _BUILTIN_KEEP:
                return n
            if n.id not in mapping:
                mapping[n.id] = f"v{len(mapping) + 1}"
            return ast.copy_location(ast.Name(id=mapping[n.id], ctx=n.ctx), n)

        def visit_arg(self, n: ast.arg) -> ast.AST:
            if n.arg not in mapping:
                mapping[n.arg] = f"v{len(mapping) + 1}"
            n.arg = mapping[n.arg]
            return n

    out = R().visit(node)
    text = unparse(out)
    return " ".join(text.split())


_BUILTIN_KEEP = {
    "self", "len", "set", "list", "tuple", "dict", "sorted", "isinstance", "type",
    "next", "iter", "enumerate", "zip", "range", "min", "max", "sum", "any", "all",
    "str", "int", "bool", "object", "reversed", "frozenset", "deque", "print",
    "True", "False", "None", "ast", "id", "hash", "super", "getattr", "setattr",
    "callable", "replace", "functools",
}


def is_docstring(stmt: ast.stmt) -> bool:
    return (
        isinstance(stmt, ast.Expr)
        and isinstance(stmt.value, ast.Constant)
        and isinstance(stmt.value.value, str)
    )


def body_without_docstring(fn: ast.AST) -> list[ast.stmt]:
    body = list(getattr(fn, "body", []))
    if body and is_docstring(body[0]):
        return body[1:]
    return body


def lineno(node: ast.AST) -> int:
    return getattr(node, "lineno", 0)
