"""Small AST helpers shared by every rule."""
from __future__ import annotations

import ast
import copy
from typing import Iterable, Iterator, Optional


_NEG = {ast.NotEq: ast.Eq, ast.NotIn: ast.In, ast.IsNot: ast.Is}
_POS = {v: k for k, v in _NEG.items()}


def _strip_not(test: ast.AST):
    """(test without an outer negation, negated?) - `not X` and single negative comparisons"""
    neg = False
    while isinstance(test, ast.UnaryOp) and isinstance(test.op, ast.Not):
        test = test.operand
        neg = not neg
    return test, neg


def canonicalise(tree: ast.AST) -> None:
    """Semantics-preserving normal form, applied once when a module is loaded, so that the rules do not
    depend on which of two equivalent spellings a maintainer chose:
      if not X: B else: A      ->  if X: A else: B          (a real else, not an elif chain)
      if a != b: B else: A     ->  if a == b: A else: B     (likewise `not in`, `is not`)
      for ..: if T: continue; REST   ->  for ..: if not T: REST     (guard clause at the top level of a loop body)
      a `pass` among other statements is dropped
      not not X                ->  X
      not (a == b) / (a in b) / (a is b) and their negative forms -> the single comparison
    Line numbers stay those of the original nodes."""
    # x: T = v  (a local, inside a function)   ->   x: T ; x = v      (the declaration keeps the type for the
    # type evaluation, the rules see a plain assignment whether or not the local is annotated)
    for fn_ in ast.walk(tree):
        if not isinstance(fn_, (ast.FunctionDef, ast.AsyncFunctionDef)):
            continue
        for node in ast.walk(fn_):
            for fld in ("body", "orelse", "finalbody"):
                seq = getattr(node, fld, None)
                if not (isinstance(seq, list) and seq and isinstance(seq[0], ast.stmt)) or isinstance(node, ast.ClassDef):
                    continue
                i = 0
                while i < len(seq):
                    st = seq[i]
                    if isinstance(st, ast.AnnAssign) and st.value is not None and isinstance(st.target, ast.Name) and st.simple:
                        decl = ast.copy_location(ast.AnnAssign(target=ast.Name(id=st.target.id, ctx=ast.Store()), annotation=st.annotation, value=None, simple=1), st)
                        asg = ast.copy_location(ast.Assign(targets=[ast.Name(id=st.target.id, ctx=ast.Store())], value=st.value, lineno=st.lineno), st)
                        ast.fix_missing_locations(decl)
                        ast.fix_missing_locations(asg)
                        seq[i:i + 1] = [decl, asg]
                        i += 2
                        continue
                    i += 1
    # a test that is a literal truth value (a flag parameter of a helper that was read through with its argument):
    #   if False: A else: B  ->  B ;   X if True else Y  ->  X ;   not True -> False ;   True and X -> X ;  False or X -> X
    _fold_literal_tests(tree)
    _isdisjoint(tree)
    _de_morgan(tree)
    # a, b = (x, y)  with plain names on both sides that do not overlap   ->   a = x ; b = y
    for node in ast.walk(tree):
        for fld in ("body", "orelse", "finalbody"):
            seq = getattr(node, fld, None)
            if not (isinstance(seq, list) and seq and isinstance(seq[0], ast.stmt)) or isinstance(node, (ast.ClassDef, ast.Module)):
                continue
            i = 0
            while i < len(seq):
                st = seq[i]
                if isinstance(st, ast.Assign) and len(st.targets) == 1 and isinstance(st.targets[0], ast.Tuple) and isinstance(st.value, ast.Tuple) \
                        and len(st.targets[0].elts) == len(st.value.elts) >= 2 \
                        and all(isinstance(e, ast.Name) for e in st.targets[0].elts) \
                        and all(isinstance(e, ast.Name) or (isinstance(e, ast.Call) and isinstance(e.func, ast.Name) and e.func.id == "len" and len(e.args) == 1 and isinstance(e.args[0], ast.Name)) for e in st.value.elts) \
                        and not ({e.id for e in st.targets[0].elts} & {x.id for e in st.value.elts for x in ast.walk(e) if isinstance(x, ast.Name)}) \
                        and len({e.id for e in st.targets[0].elts}) == len(st.targets[0].elts):
                    new = []
                    for t_, v_ in zip(st.targets[0].elts, st.value.elts):
                        a_ = ast.copy_location(ast.Assign(targets=[t_], value=v_, lineno=st.lineno), st)
                        ast.fix_missing_locations(a_)
                        new.append(a_)
                    seq[i:i + 1] = new
                    i += len(new)
                    continue
                i += 1
    # a = b  (two locals, each bound once, neither binding inside a loop)   ->   `a` is read as `b`
    for fn_ in ast.walk(tree):
        if isinstance(fn_, (ast.FunctionDef, ast.AsyncFunctionDef)):
            _read_through_name_aliases(fn_)
            _read_through_len_locals(fn_)
    # if C: raise AssertionError[(msg)]   ->   assert not C[, msg]      (`A or B` gives one assert per operand)
    for node in ast.walk(tree):
        for fld in ("body", "orelse", "finalbody"):
            seq = getattr(node, fld, None)
            if not (isinstance(seq, list) and seq and isinstance(seq[0], ast.stmt)):
                continue
            i = 0
            while i < len(seq):
                st = seq[i]
                if isinstance(st, ast.If) and not st.orelse and len(st.body) == 1 and isinstance(st.body[0], ast.Raise) and st.body[0].cause is None and st.body[0].exc is not None:
                    exc = st.body[0].exc
                    cls_ = exc.func if isinstance(exc, ast.Call) else exc
                    if isinstance(cls_, ast.Name) and cls_.id == "AssertionError" and (not isinstance(exc, ast.Call) or (len(exc.args) <= 1 and not exc.keywords)):
                        msg = exc.args[0] if isinstance(exc, ast.Call) and exc.args else None
                        parts = st.test.values if isinstance(st.test, ast.BoolOp) and isinstance(st.test.op, ast.Or) else [st.test]
                        new_ = []
                        for t_ in parts:
                            a_ = ast.copy_location(ast.Assert(test=ast.UnaryOp(op=ast.Not(), operand=t_), msg=msg), st)
                            ast.fix_missing_locations(a_)
                            new_.append(a_)
                        seq[i:i + 1] = new_
                        i += len(new_)
                        continue
                i += 1
    # yield from (E for T in IT if C)   (a statement)   ->   for T in IT: if C: yield E
    for node in ast.walk(tree):
        for fld in ("body", "orelse", "finalbody"):
            seq = getattr(node, fld, None)
            if not (isinstance(seq, list) and seq and isinstance(seq[0], ast.stmt)):
                continue
            for i, st in enumerate(seq):
                if isinstance(st, ast.Expr) and isinstance(st.value, ast.YieldFrom) and isinstance(st.value.value, (ast.GeneratorExp, ast.ListComp)) and not any(g.is_async for g in st.value.value.generators):
                    comp = st.value.value
                    body = [ast.Expr(value=ast.Yield(value=comp.elt))]
                    for g in reversed(comp.generators):
                        if g.ifs:
                            body = [ast.If(test=g.ifs[0] if len(g.ifs) == 1 else ast.BoolOp(op=ast.And(), values=list(g.ifs)), body=body, orelse=[])]
                        tg = copy.deepcopy(g.target)
                        for n_ in ast.walk(tg):
                            if hasattr(n_, "ctx"):
                                n_.ctx = ast.Store()
                        body = [ast.For(target=tg, iter=g.iter, body=body, orelse=[])]
                    new = body[0]
                    ast.copy_location(new, st)
                    for n_ in ast.walk(new):
                        if isinstance(n_, (ast.stmt, ast.expr)) and not hasattr(n_, "lineno"):
                            ast.copy_location(n_, st)
                    ast.fix_missing_locations(new)
                    seq[i] = new
    # t = <expr>; assert t[, msg]   /   t = <expr>; if t: ..      (t read nowhere else)   ->   the test is <expr>
    for fn_ in ast.walk(tree):
        if not isinstance(fn_, (ast.FunctionDef, ast.AsyncFunctionDef)):
            continue
        for node in ast.walk(fn_):
            for fld in ("body", "orelse", "finalbody"):
                seq = getattr(node, fld, None)
                if not (isinstance(seq, list) and seq and isinstance(seq[0], ast.stmt)):
                    continue
                i = 0
                while i + 1 < len(seq):
                    a_, b_ = seq[i], seq[i + 1]
                    if isinstance(a_, ast.Assign) and len(a_.targets) == 1 and isinstance(a_.targets[0], ast.Name) and isinstance(b_, (ast.Assert, ast.If)) \
                            and isinstance(b_.test, ast.Name) and b_.test.id == a_.targets[0].id and isinstance(a_.value, (ast.Compare, ast.BoolOp, ast.UnaryOp, ast.Call)):
                        nm_ = a_.targets[0].id
                        uses_ = [x for x in ast.walk(fn_) if isinstance(x, ast.Name) and x.id == nm_]
                        if len(uses_) == 2:
                            b_.test = a_.value
                            del seq[i]
                            continue
                    i += 1
    # X = D.get(K); if X is not None [and R]: BODY      ->   if K in D: X = D[K]; [if R:] BODY
    # (X read nowhere else in the function; a table whose values are names, never None)
    for fn_ in ast.walk(tree):
        if not isinstance(fn_, (ast.FunctionDef, ast.AsyncFunctionDef)):
            continue
        for node in ast.walk(fn_):
            for fld in ("body", "orelse", "finalbody"):
                seq = getattr(node, fld, None)
                if not (isinstance(seq, list) and seq and isinstance(seq[0], ast.stmt)):
                    continue
                i = 0
                while i + 1 < len(seq):
                    a_, b_ = seq[i], seq[i + 1]
                    if isinstance(a_, ast.Assign) and len(a_.targets) == 1 and isinstance(a_.targets[0], ast.Name) and isinstance(a_.value, ast.Call) \
                            and isinstance(a_.value.func, ast.Attribute) and a_.value.func.attr == "get" and len(a_.value.args) == 1 and not a_.value.keywords \
                            and isinstance(a_.value.func.value, (ast.Name, ast.Attribute)) and isinstance(b_, ast.If) and not b_.orelse:
                        x = a_.targets[0].id
                        conj = b_.test.values if isinstance(b_.test, ast.BoolOp) and isinstance(b_.test.op, ast.And) else [b_.test]
                        first = conj[0]
                        is_nn = isinstance(first, ast.Compare) and len(first.ops) == 1 and isinstance(first.ops[0], ast.IsNot) and isinstance(first.left, ast.Name) and first.left.id == x \
                            and isinstance(first.comparators[0], ast.Constant) and first.comparators[0].value is None
                        inside = {id(n) for n in ast.walk(b_)} | {id(n) for n in ast.walk(a_)}
                        elsewhere = [n for n in ast.walk(fn_) if isinstance(n, ast.Name) and n.id == x and id(n) not in inside]
                        if is_nn and not elsewhere:
                            d_, k_ = a_.value.func.value, a_.value.args[0]
                            test = ast.Compare(left=copy.deepcopy(k_), ops=[ast.In()], comparators=[copy.deepcopy(d_)])
                            asg = ast.Assign(targets=[ast.Name(id=x, ctx=ast.Store())], value=ast.Subscript(value=copy.deepcopy(d_), slice=copy.deepcopy(k_), ctx=ast.Load()), lineno=a_.lineno)
                            rest = conj[1:]
                            inner = list(b_.body)
                            if rest:
                                inner = [ast.If(test=rest[0] if len(rest) == 1 else ast.BoolOp(op=ast.And(), values=rest), body=inner, orelse=[])]
                            new_if = ast.If(test=test, body=[asg] + inner, orelse=[])
                            ast.copy_location(new_if, b_)
                            ast.copy_location(asg, a_)
                            for n in ast.walk(new_if):
                                if not hasattr(n, "lineno") and isinstance(n, (ast.expr, ast.stmt)):
                                    ast.copy_location(n, b_)
                            ast.fix_missing_locations(new_if)
                            seq[i:i + 2] = [new_if]
                            continue
                    i += 1
    # try: X = D[K] (or: return D[K]) except KeyError: A else: B   ->   if K in D: X = D[K]; B else: A
    # (the one subscript is the only thing the try protects; D a name / attribute chain, no `as` name used)
    for node in ast.walk(tree):
        for fld in ("body", "orelse", "finalbody"):
            seq = getattr(node, fld, None)
            if not (isinstance(seq, list) and seq and isinstance(seq[0], ast.stmt)):
                continue
            for i, st in enumerate(seq):
                if not (isinstance(st, ast.Try) and len(st.body) == 1 and len(st.handlers) == 1 and not st.finalbody):
                    continue
                h_ = st.handlers[0]
                if not (isinstance(h_.type, ast.Name) and h_.type.id == "KeyError"):
                    continue
                if h_.name and any(isinstance(x, ast.Name) and x.id == h_.name for b_ in h_.body for x in ast.walk(b_)):
                    continue
                b0 = st.body[0]
                val = b0.value if isinstance(b0, (ast.Assign, ast.Return, ast.Expr)) else None
                if isinstance(b0, ast.Assign) and not (len(b0.targets) == 1 and isinstance(b0.targets[0], ast.Name)):
                    continue
                if not (isinstance(val, ast.Subscript) and isinstance(val.value, (ast.Name, ast.Attribute)) and isinstance(val.slice, (ast.Name, ast.Attribute, ast.Constant))):
                    continue
                test = ast.Compare(left=copy.deepcopy(val.slice), ops=[ast.In()], comparators=[copy.deepcopy(val.value)])
                hb = [x for x in h_.body if not isinstance(x, ast.Pass)]
                new_if = ast.copy_location(ast.If(test=test, body=[b0] + list(st.orelse), orelse=hb), st)
                ast.fix_missing_locations(new_if)
                seq[i] = new_if
    # try: I = X.index(Y) except ValueError: A else: B   ->   if Y in X: I = X.index(Y); B else: A
    for node in ast.walk(tree):
        for fld in ("body", "orelse", "finalbody"):
            seq = getattr(node, fld, None)
            if not (isinstance(seq, list) and seq and isinstance(seq[0], ast.stmt)):
                continue
            for i, st in enumerate(seq):
                if not (isinstance(st, ast.Try) and len(st.body) == 1 and len(st.handlers) == 1 and not st.finalbody):
                    continue
                h_ = st.handlers[0]
                if not (isinstance(h_.type, ast.Name) and h_.type.id == "ValueError") or h_.name:
                    continue
                b0 = st.body[0]
                if not (isinstance(b0, ast.Assign) and len(b0.targets) == 1 and isinstance(b0.targets[0], ast.Name) and isinstance(b0.value, ast.Call) and isinstance(b0.value.func, ast.Attribute)
                        and b0.value.func.attr == "index" and len(b0.value.args) == 1 and not b0.value.keywords and isinstance(b0.value.func.value, (ast.Name, ast.Attribute)) and isinstance(b0.value.args[0], (ast.Name, ast.Attribute, ast.Constant))):
                    continue
                test = ast.Compare(left=copy.deepcopy(b0.value.args[0]), ops=[ast.In()], comparators=[copy.deepcopy(b0.value.func.value)])
                hb = [x for x in h_.body if not isinstance(x, ast.Pass)]
                rest_ = []
                if hb and isinstance(hb[-1], (ast.Continue, ast.Return, ast.Raise, ast.Break)):
                    # the handler leaves: what follows the try runs only when the position was found
                    rest_ = list(seq[i + 1:])
                    del seq[i + 1:]
                new_if = ast.copy_location(ast.If(test=test, body=[b0] + list(st.orelse) + rest_, orelse=hb), st)
                ast.fix_missing_locations(new_if)
                seq[i] = new_if
                break
    # it = <iterable expression>; for x in it: ..   ->   for x in <iterable expression>: ..
    # (a local bound once, read once, as the iterable of the statement that follows)
    for fn_ in ast.walk(tree):
        if not isinstance(fn_, (ast.FunctionDef, ast.AsyncFunctionDef)):
            continue
        for node in ast.walk(fn_):
            for fld in ("body", "orelse", "finalbody"):
                seq = getattr(node, fld, None)
                if not (isinstance(seq, list) and seq and isinstance(seq[0], ast.stmt)):
                    continue
                i = 0
                while i + 1 < len(seq):
                    st, nx = seq[i], seq[i + 1]
                    if isinstance(st, ast.Assign) and len(st.targets) == 1 and isinstance(st.targets[0], ast.Name) and isinstance(nx, ast.For) and isinstance(nx.iter, ast.Name) and nx.iter.id == st.targets[0].id and isinstance(st.value, (ast.Call, ast.GeneratorExp, ast.ListComp)):
                        nm_ = st.targets[0].id
                        uses_ = [x for x in ast.walk(fn_) if isinstance(x, ast.Name) and x.id == nm_]
                        if len(uses_) == 2:
                            nx.iter = st.value
                            del seq[i]
                            continue
                    i += 1
    # chain.from_iterable(E for x in IT)   ->   (v for x in IT for v in E)
    for node in ast.walk(tree):
        for fld, val in ast.iter_fields(node):
            items = val if isinstance(val, list) else [val]
            for j_, v_ in enumerate(items):
                if isinstance(v_, ast.Call) and isinstance(v_.func, ast.Attribute) and v_.func.attr == "from_iterable" and unparse(v_.func.value) in ("chain", "itertools.chain") and len(v_.args) == 1 and not v_.keywords and isinstance(v_.args[0], (ast.GeneratorExp, ast.ListComp)):
                    c_ = v_.args[0]
                    used_ = {n_.id for n_ in ast.walk(c_) if isinstance(n_, ast.Name)}
                    nm_ = "elem"
                    while nm_ in used_:
                        nm_ += "_"
                    g2 = ast.comprehension(target=ast.Name(id=nm_, ctx=ast.Store()), iter=c_.elt, ifs=[], is_async=0)
                    new_ = ast.copy_location(ast.GeneratorExp(elt=ast.Name(id=nm_, ctx=ast.Load()), generators=list(c_.generators) + [g2]), v_)
                    ast.fix_missing_locations(new_)
                    if isinstance(val, list):
                        val[j_] = new_
                    else:
                        setattr(node, fld, new_)
    # for x in [E for a in A if C for b in B ..]: BODY   ->   for a in A: if C: for b in B: x = E; BODY
    # (BODY does not leave the loop with its own `break`, no else clause; when E is the innermost variable the
    # innermost loop binds x directly)
    def _own_break(stmts) -> bool:
        for s_ in stmts:
            if isinstance(s_, ast.Break):
                return True
            if isinstance(s_, (ast.For, ast.While, ast.FunctionDef, ast.AsyncFunctionDef, ast.ClassDef)):
                continue
            for f2 in ("body", "orelse", "finalbody", "handlers"):
                sub_ = getattr(s_, f2, None)
                if isinstance(sub_, list):
                    inner_ = []
                    for z_ in sub_:
                        inner_ += z_.body if isinstance(z_, ast.ExceptHandler) else [z_]
                    if _own_break(inner_):
                        return True
        return False

    for node in list(ast.walk(tree)):
        if isinstance(node, ast.For) and isinstance(node.iter, (ast.ListComp, ast.GeneratorExp)) and not node.orelse and not any(g_.is_async for g_ in node.iter.generators) and not _own_break(node.body):
            comp_ = node.iter
            gens_ = comp_.generators
            last_ = gens_[-1]
            direct = isinstance(node.target, ast.Name) and isinstance(comp_.elt, ast.Name) and isinstance(last_.target, ast.Name) and comp_.elt.id == last_.target.id
            if len(gens_) == 1 and not last_.ifs and not direct:
                continue  # a plain map: nothing gained
            body_ = list(node.body)
            ren_ = {}
            if direct:
                ren_ = {last_.target.id: node.target.id}
            else:
                asg_ = ast.Assign(targets=[copy.deepcopy(node.target)], value=comp_.elt, lineno=node.lineno)
                body_ = [asg_] + body_

            def _rn(e_):
                e2 = copy.deepcopy(e_)
                for n_ in ast.walk(e2):
                    if isinstance(n_, ast.Name) and n_.id in ren_:
                        n_.id = ren_[n_.id]
                return e2

            for gi_ in range(len(gens_) - 1, -1, -1):
                g_ = gens_[gi_]
                if g_.ifs:
                    conds = [_rn(c_) for c_ in g_.ifs]
                    body_ = [ast.If(test=conds[0] if len(conds) == 1 else ast.BoolOp(op=ast.And(), values=conds), body=body_, orelse=[])]
                tg_ = _rn(g_.target)
                for n_ in ast.walk(tg_):
                    if hasattr(n_, "ctx"):
                        n_.ctx = ast.Store()
                if gi_ == 0:
                    node.target = tg_
                    node.iter = _rn(g_.iter) if gi_ != len(gens_) - 1 else g_.iter
                    node.body = body_
                else:
                    body_ = [ast.For(target=tg_, iter=_rn(g_.iter) if gi_ != len(gens_) - 1 else g_.iter, body=body_, orelse=[])]
            for x_ in ast.walk(node):
                if not hasattr(x_, "lineno") and isinstance(x_, (ast.stmt, ast.expr)):
                    ast.copy_location(x_, node)
            ast.fix_missing_locations(node)
    # S.difference_update(<comprehension>) / S.update(<comprehension>) / L.extend(<comprehension>) as statements
    #   ->   for ..: [if ..:] S.discard(e) / S.add(e) / L.append(e)        (the comprehension does not read S)
    _bulk = {"difference_update": "discard", "update": "add", "extend": "append"}
    for node in ast.walk(tree):
        for fld in ("body", "orelse", "finalbody"):
            seq = getattr(node, fld, None)
            if not (isinstance(seq, list) and seq and isinstance(seq[0], ast.stmt)):
                continue
            for i, st in enumerate(seq):
                if not (isinstance(st, ast.Expr) and isinstance(st.value, ast.Call) and isinstance(st.value.func, ast.Attribute) and st.value.func.attr in _bulk and len(st.value.args) == 1 and not st.value.keywords):
                    continue
                c_ = st.value.args[0]
                recv = st.value.func.value
                if not isinstance(c_, (ast.GeneratorExp, ast.ListComp, ast.SetComp)) or not isinstance(recv, (ast.Name, ast.Attribute)) or any(g_.is_async for g_ in c_.generators):
                    continue
                if isinstance(c_, ast.SetComp) and st.value.func.attr == "extend":
                    continue
                if st.value.func.attr == "update" and isinstance(c_.elt, (ast.Tuple, ast.List)) and len(c_.elt.elts) == 2:
                    # pairs: the receiver may be a dict (D.update((k, v) for ..)): D[k] = v
                    continue
                if unparse(recv) in unparse(c_):
                    continue
                call_ = ast.Expr(value=ast.Call(func=ast.Attribute(value=recv, attr=_bulk[st.value.func.attr], ctx=ast.Load()), args=[c_.elt], keywords=[]))
                body_ = [call_]
                for g_ in reversed(c_.generators):
                    if g_.ifs:
                        body_ = [ast.If(test=g_.ifs[0] if len(g_.ifs) == 1 else ast.BoolOp(op=ast.And(), values=list(g_.ifs)), body=body_, orelse=[])]
                    tg_ = copy.deepcopy(g_.target)
                    for n_ in ast.walk(tg_):
                        if hasattr(n_, "ctx"):
                            n_.ctx = ast.Store()
                    body_ = [ast.For(target=tg_, iter=g_.iter, body=body_, orelse=[])]
                seq[i] = ast.copy_location(body_[0], st)
                ast.fix_missing_locations(seq[i])
    # if (x := E): ..   ->   x = E; if x: ..      (the walrus sits where it is evaluated first and always:
    # the test itself, the operand of `not`, the left side of a comparison, the first operand of and / or)
    def _first_walrus(t_):
        while True:
            if isinstance(t_, ast.NamedExpr):
                return t_
            if isinstance(t_, ast.UnaryOp):
                t_ = t_.operand
            elif isinstance(t_, ast.Compare):
                t_ = t_.left
            elif isinstance(t_, ast.BoolOp):
                t_ = t_.values[0]
            else:
                return None

    for node in ast.walk(tree):
        for fld in ("body", "orelse", "finalbody"):
            seq = getattr(node, fld, None)
            if not (isinstance(seq, list) and seq and isinstance(seq[0], ast.stmt)):
                continue
            i = 0
            while i < len(seq):
                st = seq[i]
                if isinstance(st, ast.If):
                    w_ = _first_walrus(st.test)
                    if w_ is not None and isinstance(w_.target, ast.Name):
                        asg = ast.copy_location(ast.Assign(targets=[ast.Name(id=w_.target.id, ctx=ast.Store())], value=w_.value, lineno=st.lineno), st)
                        ast.fix_missing_locations(asg)
                        ref = ast.copy_location(ast.Name(id=w_.target.id, ctx=ast.Load()), w_)
                        if st.test is w_:
                            st.test = ref
                        else:
                            for p_ in ast.walk(st.test):
                                for f2, v2 in ast.iter_fields(p_):
                                    if v2 is w_:
                                        setattr(p_, f2, ref)
                                    elif isinstance(v2, list):
                                        for j_, x_ in enumerate(v2):
                                            if x_ is w_:
                                                v2[j_] = ref
                        seq.insert(i, asg)
                        i += 2
                        continue
                i += 1
    # a, b, c = m.groups()   ->   a = m.group(1); b = m.group(2); c = m.group(3)    (re.Match)
    for node in ast.walk(tree):
        for fld in ("body", "orelse", "finalbody"):
            seq = getattr(node, fld, None)
            if not (isinstance(seq, list) and seq and isinstance(seq[0], ast.stmt)):
                continue
            i = 0
            while i < len(seq):
                st = seq[i]
                if isinstance(st, ast.Assign) and len(st.targets) == 1 and isinstance(st.targets[0], ast.Tuple) and all(isinstance(e_, ast.Name) for e_ in st.targets[0].elts) and isinstance(st.value, ast.Call) and isinstance(st.value.func, ast.Attribute) and st.value.func.attr == "groups" and not st.value.args and not st.value.keywords and isinstance(st.value.func.value, ast.Name):
                    new_ = []
                    for k_, e_ in enumerate(st.targets[0].elts):
                        c_ = ast.Call(func=ast.Attribute(value=ast.Name(id=st.value.func.value.id, ctx=ast.Load()), attr="group", ctx=ast.Load()), args=[ast.Constant(value=k_ + 1)], keywords=[])
                        a_ = ast.copy_location(ast.Assign(targets=[ast.Name(id=e_.id, ctx=ast.Store())], value=c_, lineno=st.lineno), st)
                        ast.fix_missing_locations(a_)
                        new_.append(a_)
                    seq[i:i + 1] = new_
                    i += len(new_)
                    continue
                i += 1
    # D |= {"a": x, "b": y}  /  D.update({"a": x, "b": y})   ->   D["a"] = x; D["b"] = y
    # (D a name, attribute or subscript chain; constant keys; the values do not read D)
    def _simple_target(t_) -> bool:
        if isinstance(t_, ast.Name):
            return True
        if isinstance(t_, ast.Attribute):
            return _simple_target(t_.value)
        if isinstance(t_, ast.Subscript):
            return _simple_target(t_.value) and isinstance(t_.slice, (ast.Name, ast.Constant))
        return False

    for node in ast.walk(tree):
        for fld in ("body", "orelse", "finalbody"):
            seq = getattr(node, fld, None)
            if not (isinstance(seq, list) and seq and isinstance(seq[0], ast.stmt)):
                continue
            i = 0
            while i < len(seq):
                st = seq[i]
                tgt = disp = None
                if isinstance(st, ast.AugAssign) and isinstance(st.op, ast.BitOr) and isinstance(st.value, ast.Dict):
                    tgt, disp = st.target, st.value
                elif isinstance(st, ast.Expr) and isinstance(st.value, ast.Call) and isinstance(st.value.func, ast.Attribute) and st.value.func.attr == "update" and len(st.value.args) == 1 and not st.value.keywords and isinstance(st.value.args[0], ast.Dict):
                    tgt, disp = st.value.func.value, st.value.args[0]
                comp = None
                if isinstance(st, ast.AugAssign) and isinstance(st.op, ast.BitOr) and isinstance(st.value, ast.DictComp):
                    tgt, comp = st.target, st.value
                elif isinstance(st, ast.Expr) and isinstance(st.value, ast.Call) and isinstance(st.value.func, ast.Attribute) and st.value.func.attr == "update" and len(st.value.args) == 1 and not st.value.keywords and isinstance(st.value.args[0], ast.DictComp):
                    tgt, comp = st.value.func.value, st.value.args[0]
                if comp is not None and _simple_target(tgt) and len(comp.generators) == 1 and not comp.generators[0].is_async and ast.unparse(tgt) not in ast.unparse(comp):
                    # D |= {K: V for T in IT if C}   ->   for T in IT: if C: D[K] = V
                    g_ = comp.generators[0]
                    t2 = copy.deepcopy(tgt)
                    for n_ in ast.walk(t2):
                        if hasattr(n_, "ctx"):
                            n_.ctx = ast.Load()
                    a_ = ast.Assign(targets=[ast.Subscript(value=t2, slice=comp.key, ctx=ast.Store())], value=comp.value, lineno=st.lineno)
                    body_ = [a_]
                    if g_.ifs:
                        body_ = [ast.If(test=g_.ifs[0] if len(g_.ifs) == 1 else ast.BoolOp(op=ast.And(), values=list(g_.ifs)), body=[a_], orelse=[])]
                    tg_ = copy.deepcopy(g_.target)
                    for n_ in ast.walk(tg_):
                        if hasattr(n_, "ctx"):
                            n_.ctx = ast.Store()
                    lp_ = ast.copy_location(ast.For(target=tg_, iter=g_.iter, body=body_, orelse=[]), st)
                    ast.fix_missing_locations(lp_)
                    seq[i] = lp_
                    i += 1
                    continue
                if tgt is not None and disp is not None and disp.keys and _simple_target(tgt) and all(isinstance(k_, ast.Constant) for k_ in disp.keys):
                    ttxt = ast.unparse(tgt)
                    if not any(ttxt in ast.unparse(v_) for v_ in disp.values):
                        new_ = []
                        for k_, v_ in zip(disp.keys, disp.values):
                            t2 = copy.deepcopy(tgt)
                            for n_ in ast.walk(t2):
                                if hasattr(n_, "ctx"):
                                    n_.ctx = ast.Load()
                            a_ = ast.copy_location(ast.Assign(targets=[ast.Subscript(value=t2, slice=k_, ctx=ast.Store())], value=v_, lineno=st.lineno), st)
                            ast.fix_missing_locations(a_)
                            new_.append(a_)
                        seq[i:i + 1] = new_
                        i += len(new_)
                        continue
                i += 1
    # T[k] = A if c else B   ->   if c: T[k] = A else: T[k] = B     (subscript stores only)
    for node in ast.walk(tree):
        for fld in ("body", "orelse", "finalbody"):
            seq = getattr(node, fld, None)
            if not (isinstance(seq, list) and seq and isinstance(seq[0], ast.stmt)):
                continue
            for i, st in enumerate(seq):
                if isinstance(st, ast.Assign) and len(st.targets) == 1 and isinstance(st.targets[0], ast.Subscript) and isinstance(st.value, ast.IfExp):
                    a_ = ast.copy_location(ast.Assign(targets=[copy.deepcopy(st.targets[0])], value=st.value.body, lineno=st.lineno), st)
                    b_ = ast.copy_location(ast.Assign(targets=[copy.deepcopy(st.targets[0])], value=st.value.orelse, lineno=st.lineno), st)
                    seq[i] = ast.copy_location(ast.If(test=st.value.test, body=[a_], orelse=[b_]), st)
                    ast.fix_missing_locations(seq[i])
                # x = A if c else B  ->  if c: x = A else: x = B ;   x = D if c else x  ->  if c: x = D ;   return A if c else B
                elif isinstance(st, ast.Assign) and len(st.targets) == 1 and isinstance(st.targets[0], ast.Name) and isinstance(st.value, ast.IfExp) and not isinstance(node, (ast.Module, ast.ClassDef)):
                    tn = st.targets[0].id
                    arms_ = []
                    for v_ in (st.value.body, st.value.orelse):
                        if isinstance(v_, ast.Name) and v_.id == tn:
                            arms_.append([])
                        else:
                            arms_.append([ast.copy_location(ast.Assign(targets=[ast.Name(id=tn, ctx=ast.Store())], value=v_, lineno=st.lineno), st)])
                    if not arms_[0] and not arms_[1]:
                        continue
                    if not arms_[0]:
                        seq[i] = ast.copy_location(ast.If(test=ast.UnaryOp(op=ast.Not(), operand=st.value.test), body=arms_[1], orelse=[]), st)
                    else:
                        seq[i] = ast.copy_location(ast.If(test=st.value.test, body=arms_[0], orelse=arms_[1]), st)
                    ast.fix_missing_locations(seq[i])
                elif isinstance(st, ast.Return) and isinstance(st.value, ast.IfExp):
                    a_ = ast.copy_location(ast.Return(value=st.value.body), st)
                    b_ = ast.copy_location(ast.Return(value=st.value.orelse), st)
                    seq[i] = ast.copy_location(ast.If(test=st.value.test, body=[a_], orelse=[b_]), st)
                    ast.fix_missing_locations(seq[i])
    # f(.., **{"k": v, ..})   ->   f(.., k=v, ..)      (a keyword table with constant keys written out)
    for node in ast.walk(tree):
        if isinstance(node, ast.Call) and any(k.arg is None and isinstance(k.value, ast.Dict) and k.value.keys and all(isinstance(x, ast.Constant) and isinstance(x.value, str) and x.value.isidentifier() for x in k.value.keys) for k in node.keywords):
            new_kw = []
            for k in node.keywords:
                if k.arg is None and isinstance(k.value, ast.Dict) and k.value.keys and all(isinstance(x, ast.Constant) and isinstance(x.value, str) and x.value.isidentifier() for x in k.value.keys):
                    new_kw += [ast.keyword(arg=x.value, value=v) for x, v in zip(k.value.keys, k.value.values)]
                else:
                    new_kw.append(k)
            node.keywords = new_kw
            ast.fix_missing_locations(node)
    # R = (*B.<targets>, e)   ->   R__l = list(B.<targets>); R__l.append(e); R = tuple(R__l)
    # (a successor tuple extended by a display: the same edit as copy / append / tuple)
    for node in ast.walk(tree):
        for fld in ("body", "orelse", "finalbody"):
            seq = getattr(node, fld, None)
            if not (isinstance(seq, list) and seq and isinstance(seq[0], ast.stmt)):
                continue
            i = 0
            while i < len(seq):
                st = seq[i]
                if isinstance(st, ast.Assign) and len(st.targets) == 1 and isinstance(st.targets[0], ast.Name) and isinstance(st.value, (ast.Tuple, ast.List)) and len(st.value.elts) >= 2 and isinstance(st.value.elts[0], ast.Starred) and isinstance(st.value.elts[0].value, ast.Attribute) and st.value.elts[0].value.attr in ("_jump_targets", "jump_targets", "backedges") and not any(isinstance(e_, ast.Starred) for e_ in st.value.elts[1:]):
                    nm_ = st.targets[0].id + "__l"
                    a1 = ast.Assign(targets=[ast.Name(id=nm_, ctx=ast.Store())], value=ast.Call(func=ast.Name(id="list", ctx=ast.Load()), args=[st.value.elts[0].value], keywords=[]), lineno=st.lineno)
                    apps = [ast.Expr(value=ast.Call(func=ast.Attribute(value=ast.Name(id=nm_, ctx=ast.Load()), attr="append", ctx=ast.Load()), args=[e_], keywords=[])) for e_ in st.value.elts[1:]]
                    a3 = ast.Assign(targets=[ast.Name(id=st.targets[0].id, ctx=ast.Store())], value=ast.Call(func=ast.Name(id="tuple", ctx=ast.Load()), args=[ast.Name(id=nm_, ctx=ast.Load())], keywords=[]), lineno=st.lineno)
                    new_ = [a1] + apps + [a3]
                    for x_ in new_:
                        ast.copy_location(x_, st)
                        ast.fix_missing_locations(x_)
                    seq[i:i + 1] = new_
                    i += len(new_)
                    continue
                i += 1
    # del X[i]  (one target, X a name / attribute chain, i not a slice)   ->   X.pop(i)   as a statement
    for node in ast.walk(tree):
        for fld in ("body", "orelse", "finalbody"):
            seq = getattr(node, fld, None)
            if not (isinstance(seq, list) and seq and isinstance(seq[0], ast.stmt)):
                continue
            for i, st in enumerate(seq):
                if isinstance(st, ast.Delete) and len(st.targets) == 1 and isinstance(st.targets[0], ast.Subscript) and isinstance(st.targets[0].value, (ast.Name, ast.Attribute)) and not isinstance(st.targets[0].slice, (ast.Slice, ast.Tuple)) and isinstance(st.targets[0].value, ast.Name):
                    t_ = st.targets[0]
                    recv = copy.deepcopy(t_.value)
                    for n_ in ast.walk(recv):
                        if hasattr(n_, "ctx"):
                            n_.ctx = ast.Load()
                    # only for lists: the receiver is bound by list(..) / a list display / a comprehension in this scope
                    fn_ = None
                    seq[i] = ast.copy_location(ast.Expr(value=ast.Call(func=ast.Attribute(value=recv, attr="pop", ctx=ast.Load()), args=[t_.slice], keywords=[])), st) if (_bound_to_list(tree, t_.value.id) or (isinstance(t_.slice, ast.Constant) and isinstance(t_.slice.value, str))) else st
                    # (a string key: the receiver is a mapping, `del d["k"]` is `d.pop("k")` as a statement)
                    ast.fix_missing_locations(seq[i])
    # p = X.index(y); if C: X.pop(p) else: X[p] = v    ->   if C: X.pop(X.index(y)) else: X[X.index(y)] = v
    # (the position is computed right before the if-statement that holds all its uses, one per arm)
    for fn_ in ast.walk(tree):
        if not isinstance(fn_, (ast.FunctionDef, ast.AsyncFunctionDef)):
            continue
        for node in ast.walk(fn_):
            for fld in ("body", "orelse", "finalbody"):
                seq = getattr(node, fld, None)
                if not (isinstance(seq, list) and seq and isinstance(seq[0], ast.stmt)):
                    continue
                i = 0
                while i + 1 < len(seq):
                    st, nx = seq[i], seq[i + 1]
                    if isinstance(st, ast.Assign) and len(st.targets) == 1 and isinstance(st.targets[0], ast.Name) and isinstance(st.value, ast.Call) and isinstance(st.value.func, ast.Attribute) and st.value.func.attr == "index" and len(st.value.args) == 1 and isinstance(nx, ast.If):
                        nm_ = st.targets[0].id
                        all_ = [x for x in ast.walk(fn_) if isinstance(x, ast.Name) and x.id == nm_]
                        in_if = [x for x in ast.walk(nx) if isinstance(x, ast.Name) and x.id == nm_ and isinstance(x.ctx, ast.Load)]
                        per_arm = [sum(1 for z in ast.walk(ast.Module(arm, [])) if isinstance(z, ast.Name) and z.id == nm_) for arm in (nx.body, nx.orelse)]
                        in_test = any(isinstance(z, ast.Name) and z.id == nm_ for z in ast.walk(nx.test))
                        if len(all_) == 1 + len(in_if) and in_if and max(per_arm) <= 1 and not in_test:
                            for par_ in ast.walk(nx):
                                for f2, v2 in ast.iter_fields(par_):
                                    if isinstance(v2, ast.Name) and v2.id == nm_ and isinstance(v2.ctx, ast.Load):
                                        setattr(par_, f2, copy.deepcopy(st.value))
                                    elif isinstance(v2, list):
                                        for j_, x_ in enumerate(v2):
                                            if isinstance(x_, ast.Name) and x_.id == nm_ and isinstance(x_.ctx, ast.Load):
                                                v2[j_] = copy.deepcopy(st.value)
                            ast.fix_missing_locations(nx)
                            del seq[i]
                            continue
                    i += 1
    # X.pop(X.index(y)) as a statement is X.remove(y)
    for node in ast.walk(tree):
        if isinstance(node, ast.Expr) and isinstance(node.value, ast.Call) and isinstance(node.value.func, ast.Attribute) and node.value.func.attr == "pop" and len(node.value.args) == 1:
            a0 = node.value.args[0]
            if isinstance(a0, ast.Call) and isinstance(a0.func, ast.Attribute) and a0.func.attr == "index" and len(a0.args) == 1 and ast.dump(a0.func.value) == ast.dump(node.value.func.value):
                node.value = ast.copy_location(ast.Call(func=ast.Attribute(value=node.value.func.value, attr="remove", ctx=ast.Load()), args=[a0.args[0]], keywords=[]), node.value)
                ast.fix_missing_locations(node)
    # match S: case A(): .. case B() | C(): .. case _: ..   ->   if isinstance(S, A): .. elif isinstance(S, (B, C)): .. else: ..
    for node in ast.walk(tree):
        for fld in ("body", "orelse", "finalbody"):
            seq = getattr(node, fld, None)
            if isinstance(seq, list):
                for i, st in enumerate(seq):
                    if isinstance(st, ast.Match):
                        new = _match_to_if(st)
                        if new is not None:
                            seq[i] = new
    # type(x) stands on the left of == / is  (`C == type(x)` -> `type(x) == C`)
    for node in ast.walk(tree):
        if isinstance(node, ast.Compare) and len(node.ops) == 1 and isinstance(node.ops[0], (ast.Eq, ast.NotEq, ast.Is, ast.IsNot)):
            r_ = node.comparators[0]
            if isinstance(r_, ast.Call) and isinstance(r_.func, ast.Name) and r_.func.id == "type" and len(r_.args) == 1 and not (isinstance(node.left, ast.Call) and isinstance(node.left.func, ast.Name) and node.left.func.id == "type"):
                node.left, node.comparators[0] = r_, node.left
    # for k in D: v = D[k]; ..   ->   for k, v in D.items(): ..     (D a name / attribute chain not assigned in the body)
    for node in ast.walk(tree):
        if isinstance(node, ast.For) and isinstance(node.target, ast.Name) and isinstance(node.iter, (ast.Name, ast.Attribute)) and len(node.body) >= 2:
            first = node.body[0]
            if isinstance(first, ast.Assign) and len(first.targets) == 1 and isinstance(first.targets[0], ast.Name) and isinstance(first.value, ast.Subscript) \
                    and ast.dump(first.value.value) == ast.dump(node.iter) and isinstance(first.value.slice, ast.Name) and first.value.slice.id == node.target.id and first.targets[0].id != node.target.id:
                vname = first.targets[0].id
                rest = node.body[1:]
                root_ = node.iter
                while isinstance(root_, ast.Attribute):
                    root_ = root_.value
                # (re-binding v or k later in the body is the same in both forms; re-binding D is not)
                rebinding = isinstance(root_, ast.Name) and any(isinstance(x, ast.Name) and isinstance(x.ctx, ast.Store) and x.id == root_.id for s_ in rest for x in ast.walk(s_))
                if not rebinding:
                    node.target = ast.copy_location(ast.Tuple(elts=[ast.Name(id=node.target.id, ctx=ast.Store()), ast.Name(id=vname, ctx=ast.Store())], ctx=ast.Store()), node.target)
                    node.iter = ast.copy_location(ast.Call(func=ast.Attribute(value=node.iter, attr="items", ctx=ast.Load()), args=[], keywords=[]), node.iter)
                    node.body = rest
                    ast.fix_missing_locations(node)
    # a temporary that only names the condition of the if-statement that follows, or the value of the return
    # that follows, is read through:   c = COND; if c: ..  ->  if COND: ..      r = f(x); return r  ->  return f(x)
    for fn_ in ast.walk(tree):
        if isinstance(fn_, (ast.FunctionDef, ast.AsyncFunctionDef)):
            _inline_adjacent_temporaries(fn_)
    # private constants are read as their value: `_NAME = "literal"` at module or class level (bound once, never
    # re-bound) replaces `_NAME` / `self._NAME` / `cls._NAME` / `Class._NAME`; then `"..{a}..".format(a=x)` is
    # read as the f-string it abbreviates
    _inline_private_constants(tree)
    for node in ast.walk(tree):
        for fld, val in ast.iter_fields(node):
            if isinstance(val, ast.Call):
                new = _format_to_fstring(val)
                if new is not val:
                    setattr(node, fld, new)
            elif isinstance(val, list):
                for i, v in enumerate(val):
                    if isinstance(v, ast.Call):
                        new = _format_to_fstring(v)
                        if new is not v:
                            val[i] = new
    # membership views: a local bound once to set(X) / frozenset(X) / X.union(Y) / X | Y that is only ever the
    # right operand of `in` / `not in` is replaced by what it is a view of, and
    #   x in set(X) -> x in X        x in A.union(B) / x in (A | B) -> x in A or x in B
    # (membership in a list, tuple or set of the same elements is the same question)
    for fn_ in ast.walk(tree):
        if isinstance(fn_, (ast.FunctionDef, ast.AsyncFunctionDef)):
            _propagate_membership_views(fn_)
    for node in ast.walk(tree):
        for fld, val in ast.iter_fields(node):
            if isinstance(val, ast.Compare):
                new = _expand_membership(val)
                if new is not val:
                    setattr(node, fld, new)
            elif isinstance(val, list):
                for i, v in enumerate(val):
                    if isinstance(v, ast.Compare):
                        new = _expand_membership(v)
                        if new is not v:
                            val[i] = new
    # x = x <op> e  ->  x <op>= e   (plain names; the two differ only in whether a mutable left operand is
    # updated in place, which no rule relies on)
    for node in ast.walk(tree):
        for fld in ("body", "orelse", "finalbody"):
            seq = getattr(node, fld, None)
            if not (isinstance(seq, list) and seq and isinstance(seq[0], ast.stmt)):
                continue
            for i, st in enumerate(seq):
                if isinstance(st, ast.Assign) and len(st.targets) == 1 and isinstance(st.targets[0], ast.Name) and isinstance(st.value, ast.BinOp) and isinstance(st.value.left, ast.Name) and st.value.left.id == st.targets[0].id and isinstance(st.value.op, (ast.Add, ast.Sub, ast.Mult, ast.BitOr, ast.BitAnd, ast.BitXor, ast.FloorDiv, ast.Mod)):
                    seq[i] = ast.copy_location(ast.AugAssign(target=ast.Name(id=st.targets[0].id, ctx=ast.Store()), op=st.value.op, value=st.value.right), st)
                    ast.fix_missing_locations(seq[i])
    # comparisons are oriented: a constant stands on the right; otherwise `<` / `<=` are preferred
    #   1 < len(x) -> len(x) > 1      n > len(x) -> len(x) < n      "a" == x -> x == "a"
    _flip = {ast.Gt: ast.Lt, ast.GtE: ast.LtE, ast.Lt: ast.Gt, ast.LtE: ast.GtE, ast.Eq: ast.Eq, ast.NotEq: ast.NotEq}
    for node in ast.walk(tree):
        if isinstance(node, ast.Compare) and len(node.ops) == 1 and type(node.ops[0]) in _flip:
            l_, r_ = node.left, node.comparators[0]
            lc, rc = isinstance(l_, ast.Constant), isinstance(r_, ast.Constant)
            op = type(node.ops[0])
            if (lc and not rc) or (not lc and not rc and op in (ast.Gt, ast.GtE)):
                node.left, node.comparators[0], node.ops[0] = r_, l_, _flip[op]()
            elif not lc and not rc and op in (ast.Eq, ast.NotEq) and _selector(l_) and _selector(r_) and _order_key(l_) > _order_key(r_):
                # a == b and b == a are one spelling: operands in a fixed (textual) order
                node.left, node.comparators[0] = r_, l_
    _normalise_len_compares(tree)
    # raise AssertionError[(msg)] as a statement of its own   ->   assert False[, msg]
    for node in ast.walk(tree):
        for fld in ("body", "orelse", "finalbody"):
            seq = getattr(node, fld, None)
            if not (isinstance(seq, list) and seq and isinstance(seq[0], ast.stmt)):
                continue
            for i, st in enumerate(seq):
                if isinstance(st, ast.Raise) and st.cause is None and st.exc is not None:
                    exc = st.exc
                    cls_ = exc.func if isinstance(exc, ast.Call) else exc
                    if isinstance(cls_, ast.Name) and cls_.id == "AssertionError" and (not isinstance(exc, ast.Call) or (len(exc.args) <= 1 and not exc.keywords)):
                        msg = exc.args[0] if isinstance(exc, ast.Call) and exc.args else None
                        seq[i] = ast.copy_location(ast.Assert(test=ast.Constant(value=False), msg=msg), st)
                        ast.fix_missing_locations(seq[i])
    # for k, v in d.items() with an unused k (v)  ->  for v in d.values()  (for k in d)
    for fn_ in ast.walk(tree):
        if not isinstance(fn_, (ast.FunctionDef, ast.AsyncFunctionDef)):
            continue
        # reads of a name that are not covered by a loop / comprehension binding that name
        binders = []  # (names bound, nodes in which the binding is visible)
        for n_ in ast.walk(fn_):
            if isinstance(n_, ast.For):
                binders.append(({x.id for x in ast.walk(n_.target) if isinstance(x, ast.Name)}, n_.body + n_.orelse))
            elif isinstance(n_, (ast.ListComp, ast.SetComp, ast.GeneratorExp, ast.DictComp)):
                bound = {x.id for g_ in n_.generators for x in ast.walk(g_.target) if isinstance(x, ast.Name)}
                binders.append((bound, [n_]))
        covered: dict = {}
        for bound, scope in binders:
            for sc in scope:
                for x in ast.walk(sc):
                    if isinstance(x, ast.Name) and isinstance(x.ctx, (ast.Load, ast.Del)) and x.id in bound:
                        covered.setdefault(x.id, set()).add(id(x))
        free_reads: dict = {}
        for x in ast.walk(fn_):
            if isinstance(x, ast.Name) and isinstance(x.ctx, (ast.Load, ast.Del)) and id(x) not in covered.get(x.id, ()):
                free_reads[x.id] = free_reads.get(x.id, 0) + 1

        def _reads_in(nodes, name):
            return sum(1 for sc in nodes for x in ast.walk(sc) if isinstance(x, ast.Name) and isinstance(x.ctx, (ast.Load, ast.Del)) and x.id == name)

        for n_ in ast.walk(fn_):
            if isinstance(n_, ast.For):
                scope_, holder = n_.body + n_.orelse, n_
            elif isinstance(n_, (ast.ListComp, ast.SetComp, ast.GeneratorExp, ast.DictComp)) and len(n_.generators) == 1:
                holder = n_.generators[0]
                scope_ = [x for x in ([getattr(n_, "elt", None), getattr(n_, "key", None), getattr(n_, "value", None)] + list(holder.ifs)) if x is not None]
            else:
                continue
            if isinstance(holder.target, ast.Tuple) and len(holder.target.elts) == 2 and all(isinstance(e_, ast.Name) for e_ in holder.target.elts):
                it_ = holder.iter
                if isinstance(it_, ast.Call) and isinstance(it_.func, ast.Attribute) and it_.func.attr == "items" and not it_.args and not it_.keywords:
                    k_, v_ = holder.target.elts
                    k_unused = _reads_in(scope_, k_.id) == 0 and free_reads.get(k_.id, 0) == 0
                    v_unused = _reads_in(scope_, v_.id) == 0 and free_reads.get(v_.id, 0) == 0
                    if k_unused and not v_unused:
                        holder.target = v_
                        it_.func.attr = "values"
                    elif v_unused and not k_unused:
                        holder.target = k_
                        holder.iter = it_.func.value
    # x in d.keys() -> x in d ; for k in d.keys() -> for k in d ; min([a, b]) -> min(a, b)
    for node in ast.walk(tree):
        if isinstance(node, ast.Compare) and len(node.ops) == 1 and isinstance(node.ops[0], (ast.In, ast.NotIn)) and _is_keys_call(node.comparators[0]):
            node.comparators[0] = node.comparators[0].func.value
        elif isinstance(node, (ast.For, ast.comprehension)) and _is_keys_call(node.iter):
            node.iter = node.iter.func.value
        elif isinstance(node, ast.Call) and isinstance(node.func, ast.Name) and node.func.id in ("min", "max") and len(node.args) == 1 and not node.keywords and isinstance(node.args[0], (ast.List, ast.Tuple)) and len(node.args[0].elts) >= 2 and not any(isinstance(e, ast.Starred) for e in node.args[0].elts):
            node.args = list(node.args[0].elts)
    for node in ast.walk(tree):
        for fld, val in ast.iter_fields(node):
            if isinstance(val, ast.UnaryOp) and isinstance(val.op, ast.Not):
                new = _simplify_not(val)
                if new is not val:
                    setattr(node, fld, new)
            elif isinstance(val, list):
                for i, v in enumerate(val):
                    if isinstance(v, ast.UnaryOp) and isinstance(v.op, ast.Not):
                        new = _simplify_not(v)
                        if new is not v:
                            val[i] = new
    # statement lists: a `pass` next to other statements is dropped; an early `continue` guard at the
    # top level of a loop body becomes a nested conditional:  if T: continue; REST  ->  if not T: REST
    for node in ast.walk(tree):
        for fld in ("body", "orelse", "finalbody"):
            seq = getattr(node, fld, None)
            if isinstance(seq, list) and len(seq) > 1 and any(isinstance(x, ast.Pass) for x in seq) and all(isinstance(x, ast.stmt) for x in seq):
                kept = [x for x in seq if not isinstance(x, ast.Pass)]
                seq[:] = kept or [seq[0]]
    # an else after an arm that always leaves (return / raise / continue / break) is hoisted behind the
    # if-statement; when only the else arm leaves, the test is negated first:
    #   if T: ..; return   else: REST      ->   if T: ..; return       REST
    #   if T: BODY   else: ..; raise       ->   if not T: ..; raise    BODY
    # (elif chains are left alone: they are dispatch tables, not guards)
    for node in ast.walk(tree):
        for fld in ("body", "orelse", "finalbody"):
            seq = getattr(node, fld, None)
            if not (isinstance(seq, list) and seq and isinstance(seq[0], ast.stmt)):
                continue
            i = 0
            while i < len(seq):
                st = seq[i]
                if isinstance(st, ast.If) and st.orelse and not (len(st.orelse) == 1 and isinstance(st.orelse[0], ast.If)) and not _is_elif_arm(node, fld, st):
                    if always_leaves(st.body):
                        rest = st.orelse
                        st.orelse = []
                        seq[i + 1:i + 1] = rest
                    elif always_leaves(st.orelse):
                        rest = st.body
                        st.test = _simplify_not(ast.copy_location(ast.UnaryOp(op=ast.Not(), operand=st.test), st.test))
                        st.body, st.orelse = st.orelse, []
                        seq[i + 1:i + 1] = rest
                i += 1
    # while True: if not W: return X / break; REST   ->   while W: REST  [; return X]
    # (only when REST has no `break` of this loop - it would skip the return - and the loop has no else)
    for node in ast.walk(tree):
        for fld in ("body", "orelse", "finalbody"):
            seq = getattr(node, fld, None)
            if not (isinstance(seq, list) and seq and isinstance(seq[0], ast.stmt)):
                continue
            for i, st in enumerate(list(seq)):
                if not (isinstance(st, ast.While) and isinstance(st.test, ast.Constant) and st.test.value is True and not st.orelse and len(st.body) >= 2):
                    continue
                g = st.body[0]
                if not (isinstance(g, ast.If) and not g.orelse and len(g.body) == 1 and isinstance(g.body[0], (ast.Return, ast.Break))):
                    continue
                neg = _simplify_not(ast.copy_location(ast.UnaryOp(op=ast.Not(), operand=g.test), g.test))
                if not isinstance(neg, (ast.Name, ast.Attribute, ast.Compare, ast.BoolOp, ast.Call)):
                    if isinstance(neg, ast.UnaryOp) and isinstance(neg.op, ast.Not) and isinstance(g.test, ast.UnaryOp):
                        neg = g.test.operand  # `if not (A and B): break`  ->  while A and B
                    else:
                        continue
                if isinstance(g.body[0], ast.Return) and _has_own_break(st.body[1:]):
                    continue
                st.test = neg
                st.body = st.body[1:]
                if isinstance(g.body[0], ast.Return):
                    j = seq.index(st)
                    seq.insert(j + 1, g.body[0])
    for node in ast.walk(tree):
        if isinstance(node, (ast.For, ast.While)):
            body = node.body
            for i in range(len(body) - 2, -1, -1):
                st = body[i]
                if isinstance(st, ast.If) and not st.orelse and len(st.body) == 1 and isinstance(st.body[0], ast.Continue):
                    neg = _simplify_not(ast.copy_location(ast.UnaryOp(op=ast.Not(), operand=st.test), st.test))
                    nested = ast.copy_location(ast.If(test=neg, body=body[i + 1:], orelse=[]), st)
                    body[i:] = [nested]
                elif isinstance(st, ast.If) and not st.orelse and len(st.body) > 1 and isinstance(st.body[-1], ast.Continue) and body[i + 1:]:
                    # if T: A; continue   REST   ->   if T: A else: REST
                    st.body = st.body[:-1]
                    st.orelse = body[i + 1:]
                    body[i + 1:] = []
    for node in ast.walk(tree):
        if isinstance(node, ast.If) and node.orelse and not (len(node.orelse) == 1 and isinstance(node.orelse[0], ast.If)):
            t = node.test
            if isinstance(t, ast.UnaryOp) and isinstance(t.op, ast.Not):
                node.test = t.operand
                node.body, node.orelse = node.orelse, node.body
            elif isinstance(t, ast.Compare) and len(t.ops) == 1 and type(t.ops[0]) in _NEG:
                # a single negative comparison with a real else: positive form, arms swapped
                node.test = ast.copy_location(ast.Compare(left=t.left, ops=[_NEG[type(t.ops[0])]()], comparators=t.comparators), t)
                node.body, node.orelse = node.orelse, node.body
        if isinstance(node, ast.IfExp):
            t = node.test
            if isinstance(t, ast.UnaryOp) and isinstance(t.op, ast.Not):
                node.test = t.operand
                node.body, node.orelse = node.orelse, node.body
    _normalise_len_compares(tree)
    _truth_tests_of_lengths(tree)
    # assert A and B[, msg]   ->   assert A[, msg] ; assert B[, msg]
    for node in ast.walk(tree):
        for fld in ("body", "orelse", "finalbody"):
            seq = getattr(node, fld, None)
            if not (isinstance(seq, list) and seq and isinstance(seq[0], ast.stmt)):
                continue
            i = 0
            while i < len(seq):
                st = seq[i]
                if isinstance(st, ast.Assert) and isinstance(st.test, ast.BoolOp) and isinstance(st.test.op, ast.And):
                    new = [ast.copy_location(ast.Assert(test=v, msg=copy.deepcopy(st.msg) if st.msg is not None else None), st) for v in st.test.values]
                    for x in new:
                        ast.fix_missing_locations(x)
                    seq[i:i + 1] = new
                    continue
                i += 1


def _read_through_len_locals(fn: ast.AST) -> None:
    """`n = len(xs)` bound once outside any loop, `xs` a parameter or a local bound once that this function neither
    re-binds nor changes in place: `n` is read as `len(xs)` (a length kept in a local for a few comparisons).
    Side condition: callees that are handed `xs` do not change it either (the edit primitives of this package copy)."""
    own = list(_walk_own(fn))
    if any(isinstance(n, (ast.Global, ast.Nonlocal)) for n in own):
        return
    stores: dict = {}
    decls = {id(n.target) for n in own if isinstance(n, ast.AnnAssign) and n.value is None}
    for n in own:
        if isinstance(n, ast.Name) and isinstance(n.ctx, (ast.Store, ast.Del)) and id(n) not in decls:
            stores[n.id] = stores.get(n.id, 0) + 1
    params = {a.arg for a in fn.args.args + fn.args.kwonlyargs + fn.args.posonlyargs}
    MUT = ("append", "extend", "insert", "pop", "remove", "clear", "sort", "reverse", "add", "discard", "update", "difference_update", "intersection_update", "popleft", "appendleft")
    mutated = set()
    for n in ast.walk(fn):
        if isinstance(n, ast.Call) and isinstance(n.func, ast.Attribute) and n.func.attr in MUT and isinstance(n.func.value, ast.Name):
            mutated.add(n.func.value.id)
        elif isinstance(n, (ast.Subscript,)) and isinstance(n.ctx, (ast.Store, ast.Del)) and isinstance(n.value, ast.Name):
            mutated.add(n.value.id)
        elif isinstance(n, ast.AugAssign) and isinstance(n.target, ast.Name):
            mutated.add(n.target.id)
    nested_stores = {x.id for n in ast.walk(fn) if n is not fn and isinstance(n, (ast.FunctionDef, ast.AsyncFunctionDef, ast.Lambda)) for x in ast.walk(n) if isinstance(x, ast.Name) and isinstance(x.ctx, ast.Store)}

    def walk_stmts(stmts, in_loop, out):
        for st in stmts:
            if isinstance(st, ast.Assign) and len(st.targets) == 1 and isinstance(st.targets[0], ast.Name) and not in_loop:
                out.append((st, stmts))
            if isinstance(st, (ast.FunctionDef, ast.AsyncFunctionDef, ast.ClassDef)):
                continue
            for fld in ("body", "orelse", "finalbody"):
                sub = getattr(st, fld, None)
                if isinstance(sub, list) and sub and isinstance(sub[0], ast.stmt):
                    walk_stmts(sub, in_loop or isinstance(st, (ast.For, ast.While, ast.AsyncFor)), out)
            for h in getattr(st, "handlers", []) or []:
                walk_stmts(h.body, in_loop, out)

    cands: list = []
    walk_stmts(fn.body, False, cands)
    for st, holder in cands:
        n = st.targets[0].id
        v = st.value
        if not (isinstance(v, ast.Call) and isinstance(v.func, ast.Name) and v.func.id == "len" and len(v.args) == 1 and not v.keywords and isinstance(v.args[0], ast.Name)):
            continue
        x = v.args[0].id
        if stores.get(n) != 1 or n in params or n in nested_stores or n in mutated:
            continue
        if not ((x in params and stores.get(x, 0) == 0) or stores.get(x, 0) == 1) or x in mutated or x in nested_stores:
            continue
        for node in ast.walk(fn):
            for fld, sub in ast.iter_fields(node):
                if isinstance(sub, ast.Name) and sub.id == n and isinstance(sub.ctx, ast.Load):
                    setattr(node, fld, ast.copy_location(ast.Call(func=ast.Name(id="len", ctx=ast.Load()), args=[ast.Name(id=x, ctx=ast.Load())], keywords=[]), sub))
                elif isinstance(sub, list):
                    for k_, y in enumerate(sub):
                        if isinstance(y, ast.Name) and y.id == n and isinstance(y.ctx, ast.Load):
                            sub[k_] = ast.copy_location(ast.Call(func=ast.Name(id="len", ctx=ast.Load()), args=[ast.Name(id=x, ctx=ast.Load())], keywords=[]), y)
        holder.remove(st)
        if not holder:
            holder.append(ast.copy_location(ast.Pass(), st))
    ast.fix_missing_locations(fn)


def _read_through_name_aliases(fn: ast.AST) -> None:
    own = [n for n in _walk_own(fn)]
    stores: dict = {}
    decls = {id(n.target) for n in own if isinstance(n, ast.AnnAssign) and n.value is None}
    for n in own:
        if isinstance(n, ast.Name) and isinstance(n.ctx, (ast.Store, ast.Del)) and id(n) not in decls:
            stores[n.id] = stores.get(n.id, 0) + 1
        elif isinstance(n, (ast.Global, ast.Nonlocal)):
            return
    params = {a.arg for a in fn.args.args + fn.args.kwonlyargs + fn.args.posonlyargs} | ({fn.args.vararg.arg} if fn.args.vararg else set()) | ({fn.args.kwarg.arg} if fn.args.kwarg else set())
    # names re-bound by a nested function / comprehension are left alone
    nested_stores = set()
    for n in ast.walk(fn):
        if n is not fn and isinstance(n, (ast.FunctionDef, ast.AsyncFunctionDef, ast.Lambda)):
            for x in ast.walk(n):
                if isinstance(x, ast.Name) and isinstance(x.ctx, ast.Store):
                    nested_stores.add(x.id)

    def top_assigns(stmts, in_loop, out):
        for st in stmts:
            if isinstance(st, ast.Assign) and len(st.targets) == 1 and isinstance(st.targets[0], ast.Name):
                out.append((st, in_loop, stmts))
            for fld in ("body", "orelse", "finalbody"):
                sub = getattr(st, fld, None)
                if isinstance(sub, list) and sub and isinstance(sub[0], ast.stmt) and not isinstance(st, (ast.FunctionDef, ast.AsyncFunctionDef, ast.ClassDef)):
                    top_assigns(sub, in_loop or isinstance(st, (ast.For, ast.While, ast.AsyncFor)), out)
            if isinstance(st, ast.Try):
                for h in st.handlers:
                    top_assigns(h.body, in_loop, out)

    for _round in range(3):
        assigns: list = []
        top_assigns(fn.body, False, assigns)
        plain = {}
        for st, in_loop, holder in assigns:
            if not in_loop and stores.get(st.targets[0].id, 0) == 1 and st.targets[0].id not in params and st.targets[0].id not in nested_stores:
                plain[st.targets[0].id] = (st, holder)
        done = False
        for a, (st, holder) in plain.items():
            v = st.value
            if not isinstance(v, ast.Name) or v.id == a or v.id in nested_stores:
                continue
            b = v.id
            if not (b in params and stores.get(b, 0) == 0 or b in plain):
                continue
            for n in ast.walk(fn):
                if isinstance(n, ast.Name) and n.id == a and isinstance(n.ctx, ast.Load):
                    n.id = b
            holder.remove(st)
            if not holder:
                holder.append(ast.copy_location(ast.Pass(), st))
            stores[a] = 0
            done = True
            break
        if not done:
            break


def _walk_own(fn: ast.AST):
    stack = list(ast.iter_child_nodes(fn))
    while stack:
        n = stack.pop()
        yield n
        if isinstance(n, (ast.FunctionDef, ast.AsyncFunctionDef, ast.Lambda, ast.ClassDef)):
            continue
        stack.extend(ast.iter_child_nodes(n))


def _fold_literal_tests(tree: ast.AST) -> None:
    def lit(e):
        return isinstance(e, ast.Constant) and isinstance(e.value, bool)

    class _E(ast.NodeTransformer):
        def visit_UnaryOp(self, n):
            self.generic_visit(n)
            if isinstance(n.op, ast.Not) and lit(n.operand):
                return ast.copy_location(ast.Constant(value=not n.operand.value), n)
            return n

        def visit_BoolOp(self, n):
            self.generic_visit(n)
            if not any(lit(v) for v in n.values):
                return n
            is_and = isinstance(n.op, ast.And)
            vals = []
            for v in n.values:
                if lit(v):
                    if v.value == is_and:
                        continue  # neutral element
                    vals.append(v)  # absorbing element: nothing after it is evaluated
                    break
                vals.append(v)
            if not vals:
                return ast.copy_location(ast.Constant(value=is_and), n)
            if len(vals) == 1:
                return vals[0]
            if lit(vals[-1]) and len(vals) > 1:
                # `X and False` still evaluates X: keep as it stands
                n.values = vals
                return n
            n.values = vals
            return n

        def visit_IfExp(self, n):
            self.generic_visit(n)
            if lit(n.test):
                return n.body if n.test.value else n.orelse
            return n

    _E().visit(tree)
    changed = True
    while changed:
        changed = False
        for node in ast.walk(tree):
            for fld in ("body", "orelse", "finalbody"):
                seq = getattr(node, fld, None)
                if not (isinstance(seq, list) and seq and isinstance(seq[0], ast.stmt)):
                    continue
                i = 0
                while i < len(seq):
                    st = seq[i]
                    if isinstance(st, ast.If) and lit(st.test):
                        rep = st.body if st.test.value else st.orelse
                        if not rep and len(seq) == 1:
                            rep = [ast.copy_location(ast.Pass(), st)]
                        seq[i:i + 1] = rep
                        changed = True
                        continue
                    i += 1


def _normalise_len_compares(tree: ast.AST) -> None:
    # a length is a non-negative integer:  len(x) != 0, len(x) >= 1  ->  len(x) > 0 ;  len(x) < 1, len(x) <= 0  ->  len(x) == 0
    #                                      len(x) >= 2 -> len(x) > 1 ;  len(x) < 2 -> len(x) <= 1
    for node in ast.walk(tree):
        if isinstance(node, ast.Compare) and len(node.ops) == 1 and isinstance(node.left, ast.Call) and isinstance(node.left.func, ast.Name) and node.left.func.id == "len" and isinstance(node.comparators[0], ast.Constant) and isinstance(node.comparators[0].value, int) and not isinstance(node.comparators[0].value, bool):
            k_ = node.comparators[0].value
            op = type(node.ops[0])
            if op is ast.NotEq and k_ == 0:
                node.ops[0] = ast.Gt()
            elif op is ast.GtE and k_ >= 1:
                node.ops[0], node.comparators[0] = ast.Gt(), ast.copy_location(ast.Constant(value=k_ - 1), node.comparators[0])
            elif op is ast.LtE and k_ == 0:
                node.ops[0] = ast.Eq()
            elif op is ast.Lt and k_ == 1:
                node.ops[0], node.comparators[0] = ast.Eq(), ast.copy_location(ast.Constant(value=0), node.comparators[0])
            elif op is ast.Lt and k_ >= 2:
                node.ops[0], node.comparators[0] = ast.LtE(), ast.copy_location(ast.Constant(value=k_ - 1), node.comparators[0])


def _de_morgan(tree: ast.AST) -> None:
    """`A' or B'` whose operands are all negative tests (`is not`, `!=`, `not in`, `not X`) is `not (A and B)`,
    and dually: of the two spellings of one condition the one with a single negation is kept"""
    neg_ops = {ast.IsNot: ast.Is, ast.NotEq: ast.Eq, ast.NotIn: ast.In}

    def positive(v):
        if isinstance(v, ast.UnaryOp) and isinstance(v.op, ast.Not):
            return v.operand
        if isinstance(v, ast.Compare) and len(v.ops) == 1 and type(v.ops[0]) in neg_ops:
            return ast.copy_location(ast.Compare(left=v.left, ops=[neg_ops[type(v.ops[0])]()], comparators=v.comparators), v)
        return None

    class _T(ast.NodeTransformer):
        def visit_BoolOp(self, n: ast.BoolOp):
            self.generic_visit(n)
            pos = [positive(v) for v in n.values]
            if len(pos) >= 2 and all(p is not None for p in pos):
                dual = ast.And() if isinstance(n.op, ast.Or) else ast.Or()
                return ast.copy_location(ast.UnaryOp(op=ast.Not(), operand=ast.copy_location(ast.BoolOp(op=dual, values=pos), n)), n)
            return n

        def visit_UnaryOp(self, n: ast.UnaryOp):
            self.generic_visit(n)
            if isinstance(n.op, ast.Not) and isinstance(n.operand, ast.UnaryOp) and isinstance(n.operand.op, ast.Not) and isinstance(n.operand.operand, (ast.BoolOp, ast.Compare)):
                return n.operand.operand
            return n

    _T().visit(tree)
    ast.fix_missing_locations(tree)


def _isdisjoint(tree: ast.AST) -> None:
    """X.isdisjoint(Y)  ->  not X.intersection(Y)   (both are the bool "no common element")"""
    class _T(ast.NodeTransformer):
        def visit_Call(self, n: ast.Call):
            self.generic_visit(n)
            if isinstance(n.func, ast.Attribute) and n.func.attr == "isdisjoint" and len(n.args) == 1 and not n.keywords:
                inter = ast.Call(func=ast.Attribute(value=n.func.value, attr="intersection", ctx=ast.Load()), args=n.args, keywords=[])
                return ast.copy_location(ast.UnaryOp(op=ast.Not(), operand=ast.copy_location(inter, n)), n)
            return n

    _T().visit(tree)
    ast.fix_missing_locations(tree)


def _truth_tests_of_lengths(tree: ast.AST) -> None:
    """where a truth value is asked for (the test of if / while / a conditional expression / a comprehension
    filter, through and / or / not), `len(x) > 0` is `x` and `len(x) == 0` is `not x`: the emptiness of a sized
    value has one spelling.  (No class of the package defines __bool__; NAME-6 watches the one that could matter.)"""
    def conv(e: ast.AST) -> ast.AST:
        if isinstance(e, ast.BoolOp):
            e.values = [conv(v) for v in e.values]
            return e
        if isinstance(e, ast.UnaryOp) and isinstance(e.op, ast.Not):
            e.operand = conv(e.operand)
            if isinstance(e.operand, ast.UnaryOp) and isinstance(e.operand.op, ast.Not):
                return e.operand.operand
            return e
        if isinstance(e, ast.Call) and isinstance(e.func, ast.Name) and e.func.id == "bool" and len(e.args) == 1 and not e.keywords:
            return conv(e.args[0])
        if isinstance(e, ast.Compare) and len(e.ops) == 1 and isinstance(e.left, ast.Call) and isinstance(e.left.func, ast.Name) and e.left.func.id == "len" \
                and len(e.left.args) == 1 and not e.left.keywords and isinstance(e.comparators[0], ast.Constant) and e.comparators[0].value == 0 and not isinstance(e.comparators[0].value, bool):
            if isinstance(e.ops[0], ast.Gt):
                return e.left.args[0]
            if isinstance(e.ops[0], ast.Eq):
                return ast.copy_location(ast.UnaryOp(op=ast.Not(), operand=e.left.args[0]), e)
        return e

    for node in ast.walk(tree):
        if isinstance(node, (ast.If, ast.While, ast.IfExp, ast.Assert)):
            node.test = conv(node.test)
        elif isinstance(node, ast.comprehension):
            node.ifs = [conv(c) for c in node.ifs]
    ast.fix_missing_locations(tree)


def _bound_to_list(tree: ast.AST, name: str) -> bool:
    """every binding of `name` in the module is list(..) / a list display / a list comprehension (so that
    `del name[i]` is the list operation, not a dict deletion)"""
    vals = [a.value for a in ast.walk(tree) if isinstance(a, ast.Assign) and any(isinstance(t, ast.Name) and t.id == name for t in a.targets)]
    return bool(vals) and all(isinstance(v, (ast.List, ast.ListComp)) or (isinstance(v, ast.Call) and isinstance(v.func, ast.Name) and v.func.id in ("list", "sorted")) for v in vals)


def _match_to_if(m: ast.Match):
    """the if/elif chain a `match` over class patterns abbreviates; None when a pattern binds or destructures"""
    def test_of(p) -> "ast.AST | None | bool":
        if isinstance(p, ast.MatchAs) and p.pattern is None and p.name is None:
            return True  # wildcard
        if isinstance(p, ast.MatchClass) and not p.patterns and not p.kwd_patterns:
            return ast.Call(func=ast.Name(id="isinstance", ctx=ast.Load()), args=[copy.deepcopy(m.subject), p.cls], keywords=[])
        if isinstance(p, ast.MatchValue):
            return ast.Compare(left=copy.deepcopy(m.subject), ops=[ast.Eq()], comparators=[p.value])
        if isinstance(p, ast.MatchSingleton):
            return ast.Compare(left=copy.deepcopy(m.subject), ops=[ast.Is()], comparators=[ast.Constant(value=p.value)])
        if isinstance(p, ast.MatchOr):
            parts = [test_of(x) for x in p.patterns]
            if any(x is None or x is True for x in parts):
                return None
            if all(isinstance(x, ast.Call) for x in parts):
                return ast.Call(func=ast.Name(id="isinstance", ctx=ast.Load()), args=[copy.deepcopy(m.subject), ast.Tuple(elts=[x.args[1] for x in parts], ctx=ast.Load())], keywords=[])
            return ast.BoolOp(op=ast.Or(), values=parts)
        return None

    if not isinstance(m.subject, (ast.Name, ast.Attribute)):
        return None
    arms = []
    for c in m.cases:
        t = test_of(c.pattern)
        if t is None:
            return None
        if c.guard is not None:
            t = c.guard if t is True else ast.BoolOp(op=ast.And(), values=[t, c.guard])
        arms.append((t, c.body))
    head = None
    cur = None
    for t, body in arms:
        if t is True:
            if cur is None:
                return None
            cur.orelse = body
            cur = None
            break
        node = ast.If(test=t, body=body, orelse=[])
        ast.copy_location(node, body[0])
        if head is None:
            head = cur = node
        else:
            cur.orelse = [node]
            cur = node
    if head is None:
        return None
    ast.copy_location(head, m)
    ast.fix_missing_locations(head)
    return head


def _selector(e: ast.AST) -> bool:
    """name / attribute / subscript chain without calls"""
    if isinstance(e, ast.Name):
        return True
    if isinstance(e, ast.Attribute):
        return _selector(e.value)
    if isinstance(e, ast.Subscript):
        return _selector(e.value) and isinstance(e.slice, (ast.Name, ast.Constant, ast.UnaryOp))
    return False


def _order_key(e: ast.AST):
    try:
        return (0 if isinstance(e, (ast.Name, ast.Attribute)) else 1, ast.unparse(e))
    except Exception:
        return (2, "")


def _inline_adjacent_temporaries(fn_: ast.AST) -> None:
    for _round in range(3):
        stores: dict = {}
        loads: dict = {}
        for n in ast.walk(fn_):
            if isinstance(n, ast.Name):
                if isinstance(n.ctx, (ast.Store, ast.Del)):
                    stores[n.id] = stores.get(n.id, 0) + 1
                else:
                    loads.setdefault(n.id, []).append(n)
            elif isinstance(n, ast.arg):
                stores[n.arg] = stores.get(n.arg, 0) + 1
            elif isinstance(n, (ast.Global, ast.Nonlocal)):
                for x in n.names:
                    stores[x] = stores.get(x, 0) + 2
        changed = False
        for holder in ast.walk(fn_):
            for fld in ("body", "orelse", "finalbody"):
                seq = getattr(holder, fld, None)
                if not (isinstance(seq, list) and len(seq) >= 2 and isinstance(seq[0], ast.stmt)):
                    continue
                i = 0
                while i + 1 < len(seq):
                    st, nxt = seq[i], seq[i + 1]
                    ok_ = isinstance(st, ast.Assign) and len(st.targets) == 1 and isinstance(st.targets[0], ast.Name) and not isinstance(st.value, (ast.Constant, ast.Name, ast.Yield, ast.YieldFrom, ast.Await))
                    if ok_:
                        t = st.targets[0].id
                        ok_ = stores.get(t, 0) == 1 and len(loads.get(t, [])) == 1
                    if ok_:
                        use = loads[t][0]
                        # only where the temporary merely names a condition or a result: the test of the
                        # if-statement that follows, or the value of the return that follows (a temporary that
                        # holds a constructed / popped object before it is passed on is left alone - the rules
                        # follow such objects by name)
                        if isinstance(nxt, ast.If):
                            hdrs = [nxt.test]
                        elif isinstance(nxt, ast.Return) and nxt.value is use:
                            hdrs = [nxt]
                        else:
                            hdrs = []
                        inside = any(any(u is use for u in ast.walk(h)) for h in hdrs)
                        scoped = any(isinstance(x, (ast.Lambda, ast.ListComp, ast.SetComp, ast.DictComp, ast.GeneratorExp)) and any(u is use for u in ast.walk(x)) for h in hdrs for x in ast.walk(h))
                        # an if-test that is the temporary itself or its negation, or any simple statement
                        if inside and not scoped:
                            for par in (y for h in hdrs for y in ast.walk(h)):
                                done = False
                                for f2, v2 in ast.iter_fields(par):
                                    if v2 is use:
                                        setattr(par, f2, st.value)
                                        done = True
                                    elif isinstance(v2, list):
                                        for k2, e2 in enumerate(v2):
                                            if e2 is use:
                                                v2[k2] = st.value
                                                done = True
                                if done:
                                    break
                            else:
                                # the header is the use itself (`if t:`)
                                if isinstance(nxt, ast.If) and nxt.test is use:
                                    nxt.test = st.value
                                elif isinstance(nxt, (ast.For, ast.AsyncFor)) and nxt.iter is use:
                                    nxt.iter = st.value
                                else:
                                    i += 1
                                    continue
                            del seq[i]
                            changed = True
                            stores[t] = 0
                            continue
                    i += 1
        if not changed:
            break


def _inline_private_constants(tree: ast.AST) -> None:
    if not isinstance(tree, ast.Module):
        return
    stores: dict = {}
    for n in ast.walk(tree):
        if isinstance(n, ast.Name) and isinstance(n.ctx, (ast.Store, ast.Del)):
            stores[n.id] = stores.get(n.id, 0) + 1
        elif isinstance(n, ast.Attribute) and isinstance(n.ctx, (ast.Store, ast.Del)):
            stores[n.attr] = stores.get(n.attr, 0) + 1
        elif isinstance(n, ast.arg):
            stores[n.arg] = stores.get(n.arg, 0) + 1
    def _const_assign(st, in_class=False):
        if isinstance(st, ast.Assign) and len(st.targets) == 1 and isinstance(st.targets[0], ast.Name):
            nm, val = st.targets[0].id, st.value
        elif isinstance(st, ast.AnnAssign) and isinstance(st.target, ast.Name) and st.value is not None:
            nm, val = st.target.id, st.value
        else:
            return None
        private = nm.startswith("_") and not nm.startswith("__")
        shouting = nm.isupper() and len(nm) >= 4 and in_class  # a class-level NAME = "literal" is a constant by convention
        if (private or shouting) and isinstance(val, ast.Constant) and isinstance(val.value, (str, int)) and not isinstance(val.value, bool) and stores.get(nm, 0) == 1:
            return nm, val
        return None
    mod_consts: dict = {}
    for st in tree.body:
        r = _const_assign(st)
        if r:
            mod_consts[r[0]] = r[1]
    cls_consts: dict = {}
    for st in tree.body:
        if isinstance(st, ast.ClassDef) and not any((isinstance(d, ast.Name) and d.id == "dataclass") or (isinstance(d, ast.Call) and isinstance(d.func, ast.Name) and d.func.id == "dataclass") for d in st.decorator_list):
            for s2 in st.body:
                r = _const_assign(s2, True)
                if r:
                    cls_consts[r[0]] = (st.name, r[1])
    if not mod_consts and not cls_consts:
        return
    for node in ast.walk(tree):
        for fld, val in ast.iter_fields(node):
            items = [(None, val)] if isinstance(val, ast.AST) else list(enumerate(val)) if isinstance(val, list) else []
            for i, v in items:
                new = None
                if isinstance(v, ast.Name) and isinstance(v.ctx, ast.Load) and v.id in mod_consts:
                    new = ast.copy_location(ast.Constant(value=mod_consts[v.id].value), v)
                elif isinstance(v, ast.Attribute) and isinstance(v.ctx, ast.Load) and v.attr in cls_consts and isinstance(v.value, ast.Name) and v.value.id in ("self", "cls", cls_consts[v.attr][0]):
                    new = ast.copy_location(ast.Constant(value=cls_consts[v.attr][1].value), v)
                if new is not None:
                    if i is None:
                        setattr(node, fld, new)
                    else:
                        val[i] = new


def _format_to_fstring(c: ast.Call) -> ast.AST:
    """'..{a}..{b!r}..'.format(a=x, b=y)  ->  f'..{x}..{y!r}..'   (named or auto-numbered simple fields only)"""
    import string as _string

    if not (isinstance(c.func, ast.Attribute) and c.func.attr == "format" and isinstance(c.func.value, ast.Constant) and isinstance(c.func.value.value, str)):
        return c
    if any(isinstance(a, ast.Starred) for a in c.args) or any(k.arg is None for k in c.keywords):
        return c
    kws = {k.arg: k.value for k in c.keywords}
    parts = []
    auto = 0
    try:
        fields = list(_string.Formatter().parse(c.func.value.value))
    except ValueError:
        return c
    for lit, field, spec, conv in fields:
        if lit:
            parts.append(ast.Constant(value=lit))
        if field is None:
            continue
        if spec:
            return c
        if field == "":
            if auto >= len(c.args):
                return c
            val = c.args[auto]
            auto += 1
        elif field.isdigit():
            if int(field) >= len(c.args):
                return c
            val = c.args[int(field)]
        elif field in kws:
            val = kws[field]
        else:
            return c
        parts.append(ast.FormattedValue(value=copy.deepcopy(val), conversion=ord(conv) if conv else -1, format_spec=None))
    out = ast.JoinedStr(values=parts)
    return ast.fix_missing_locations(ast.copy_location(out, c))


def _view_parts(e: ast.AST):
    """[X, Y, ..] when e is a membership view of those containers: set(X), frozenset(X), X.union(Y), X | Y"""
    if isinstance(e, ast.Call) and isinstance(e.func, ast.Name) and e.func.id in ("set", "frozenset") and len(e.args) == 1 and not e.keywords and isinstance(e.args[0], (ast.Name, ast.Attribute, ast.Call)):
        inner = _view_parts(e.args[0])
        return inner if inner is not None else ([e.args[0]] if isinstance(e.args[0], (ast.Name, ast.Attribute)) else None)
    if isinstance(e, ast.Call) and isinstance(e.func, ast.Attribute) and e.func.attr == "union" and e.args and not e.keywords:
        parts = []
        for x in [e.func.value] + list(e.args):
            p = _view_parts(x)
            if p is None:
                if not isinstance(x, (ast.Name, ast.Attribute)):
                    return None
                p = [x]
            parts += p
        return parts
    if isinstance(e, ast.BinOp) and isinstance(e.op, ast.BitOr):
        parts = []
        for x in (e.left, e.right):
            p = _view_parts(x)
            if p is None:
                if not isinstance(x, (ast.Name, ast.Attribute)):
                    return None
                p = [x]
            parts += p
        return parts
    return None


def _expand_membership(c: ast.Compare) -> ast.AST:
    if len(c.ops) != 1 or not isinstance(c.ops[0], (ast.In, ast.NotIn)):
        return c
    parts = _view_parts(c.comparators[0])
    if not parts:
        return c
    if not isinstance(c.left, (ast.Name, ast.Attribute, ast.Constant)) and len(parts) > 1:
        return c  # the left operand would be evaluated several times
    tests = [ast.copy_location(ast.Compare(left=copy.deepcopy(c.left), ops=[type(c.ops[0])()], comparators=[copy.deepcopy(p)]), c) for p in parts]
    if len(tests) == 1:
        return tests[0]
    op = ast.Or() if isinstance(c.ops[0], ast.In) else ast.And()
    return ast.copy_location(ast.BoolOp(op=op, values=tests), c)


def _propagate_membership_views(fn_: ast.AST) -> None:
    stores: dict = {}
    for n in ast.walk(fn_):
        if isinstance(n, ast.Name) and isinstance(n.ctx, (ast.Store, ast.Del)):
            stores[n.id] = stores.get(n.id, 0) + 1
        elif isinstance(n, ast.arg):
            stores[n.arg] = stores.get(n.arg, 0) + 1
        elif isinstance(n, (ast.Global, ast.Nonlocal)):
            for x in n.names:
                stores[x] = stores.get(x, 0) + 2
    parents: dict = {}
    for n in ast.walk(fn_):
        for ch in ast.iter_child_nodes(n):
            parents[id(ch)] = n
    for holder in ast.walk(fn_):
        for fld in ("body", "orelse", "finalbody"):
            seq = getattr(holder, fld, None)
            if not (isinstance(seq, list) and seq and isinstance(seq[0], ast.stmt)):
                continue
            for st in list(seq):
                if not (isinstance(st, ast.Assign) and len(st.targets) == 1 and isinstance(st.targets[0], ast.Name)):
                    continue
                t = st.targets[0].id
                parts = _view_parts(st.value)
                if not parts or stores.get(t, 0) != 1:
                    continue
                roots = {x.id for p in parts for x in ast.walk(p) if isinstance(x, ast.Name)}
                if any(stores.get(r, 0) > 1 for r in roots):
                    continue  # what it is a view of is re-bound somewhere: leave it alone
                uses = [n for n in ast.walk(fn_) if isinstance(n, ast.Name) and n.id == t and isinstance(n.ctx, ast.Load)]
                ok_ = bool(uses)
                pure_methods = ("intersection", "union", "difference", "isdisjoint", "issubset", "issuperset", "symmetric_difference", "copy")
                for u in uses:
                    par = parents.get(id(u))
                    member = isinstance(par, ast.Compare) and len(par.ops) == 1 and isinstance(par.ops[0], (ast.In, ast.NotIn)) and par.comparators[0] is u
                    receiver = isinstance(par, ast.Attribute) and par.value is u and par.attr in pure_methods and isinstance(parents.get(id(par)), ast.Call) and parents[id(par)].func is par
                    if not (member or receiver):
                        ok_ = False
                # the containers must not be mutated in place anywhere in the function (the view is a snapshot)
                for n in ast.walk(fn_):
                    if isinstance(n, ast.Call) and isinstance(n.func, ast.Attribute) and isinstance(n.func.value, ast.Name) and n.func.value.id in roots and n.func.attr in ("append", "add", "extend", "update", "remove", "discard", "pop", "clear", "insert", "difference_update", "intersection_update"):
                        ok_ = False
                    if isinstance(n, (ast.Assign, ast.AugAssign, ast.Delete)):
                        for tg in (n.targets if isinstance(n, (ast.Assign, ast.Delete)) else [n.target]):
                            if isinstance(tg, ast.Subscript) and isinstance(tg.value, ast.Name) and tg.value.id in roots:
                                ok_ = False
                            if isinstance(n, ast.AugAssign) and isinstance(tg, ast.Name) and tg.id in roots:
                                ok_ = False
                if not ok_:
                    continue
                for u in uses:
                    par = parents[id(u)]
                    if isinstance(par, ast.Compare):
                        par.comparators[0] = copy.deepcopy(st.value)
                    else:
                        par.value = copy.deepcopy(st.value)
                seq.remove(st)
                if not seq:
                    seq.append(ast.copy_location(ast.Pass(), st))


def _is_keys_call(e: ast.AST) -> bool:
    return isinstance(e, ast.Call) and isinstance(e.func, ast.Attribute) and e.func.attr == "keys" and not e.args and not e.keywords


def always_leaves(stmts) -> bool:
    """the statement list cannot fall through: it ends in return / raise / continue / break, or in an
    if-statement both of whose arms do"""
    if not stmts:
        return False
    last = stmts[-1]
    if isinstance(last, (ast.Return, ast.Raise, ast.Continue, ast.Break)):
        return True
    if isinstance(last, ast.If) and last.orelse:
        return always_leaves(last.body) and always_leaves(last.orelse)
    return False


def _has_own_break(stmts) -> bool:
    """a `break` that belongs to the loop whose body is `stmts` (not to a nested loop)"""
    for s_ in stmts:
        if isinstance(s_, ast.Break):
            return True
        if isinstance(s_, (ast.For, ast.While, ast.AsyncFor, ast.FunctionDef, ast.AsyncFunctionDef, ast.ClassDef)):
            if _has_own_break(getattr(s_, "orelse", [])):
                return True
            continue
        for fld in ("body", "orelse", "finalbody"):
            sub = getattr(s_, fld, None)
            if isinstance(sub, list) and _has_own_break(sub):
                return True
        for h in getattr(s_, "handlers", []) or []:
            if _has_own_break(h.body):
                return True
    return False


def _is_elif_arm(parent: ast.AST, fld: str, st: ast.AST) -> bool:
    return isinstance(parent, ast.If) and fld == "orelse" and len(parent.orelse) == 1 and parent.orelse[0] is st


def _simplify_not(e: ast.UnaryOp) -> ast.AST:
    inner, neg = _strip_not(e)
    if isinstance(inner, ast.Compare) and len(inner.ops) == 1 and neg:
        op = type(inner.ops[0])
        if op in _NEG:
            return ast.copy_location(ast.Compare(left=inner.left, ops=[_NEG[op]()], comparators=inner.comparators), e)
        if op in _POS:
            return ast.copy_location(ast.Compare(left=inner.left, ops=[_POS[op]()], comparators=inner.comparators), e)
        # a total order (lengths, integer constants): not (a <= b) is b < a - written with `<` / `<=`
        def _int_like(x):
            return (isinstance(x, ast.Call) and isinstance(x.func, ast.Name) and x.func.id == "len") or (isinstance(x, ast.Constant) and isinstance(x.value, int) and not isinstance(x.value, bool))
        l_, r_ = inner.left, inner.comparators[0]
        if op in (ast.Lt, ast.LtE, ast.Gt, ast.GtE) and _int_like(l_) and _int_like(r_):
            # not (l < r) = r <= l ; not (l <= r) = r < l ; not (l > r) = l <= r ; not (l >= r) = l < r
            if op is ast.Lt:
                new_ = ast.Compare(left=r_, ops=[ast.LtE()], comparators=[l_])
            elif op is ast.LtE:
                new_ = ast.Compare(left=r_, ops=[ast.Lt()], comparators=[l_])
            elif op is ast.Gt:
                new_ = ast.Compare(left=l_, ops=[ast.LtE()], comparators=[r_])
            else:
                new_ = ast.Compare(left=l_, ops=[ast.Lt()], comparators=[r_])
            if isinstance(new_.left, ast.Constant) and not isinstance(new_.comparators[0], ast.Constant):
                # constant on the right
                flip = {ast.Lt: ast.Gt, ast.LtE: ast.GtE}
                new_ = ast.Compare(left=new_.comparators[0], ops=[flip[type(new_.ops[0])]()], comparators=[new_.left])
            return ast.copy_location(new_, e)
    if not neg:
        return inner
    if inner is e.operand:
        return e
    return ast.copy_location(ast.UnaryOp(op=ast.Not(), operand=inner), e)


def cond_key(test_text: str, polarity: bool) -> str:
    """alpha-normalised text of a guard condition with its polarity folded in: the negation of a single
    comparison is the opposite comparison (`not a in b` and `a not in b` give one key)"""
    e = ast.parse(test_text, mode="eval").body
    if not polarity:
        e = _simplify_not(ast.UnaryOp(op=ast.Not(), operand=e))
    elif isinstance(e, ast.UnaryOp) and isinstance(e.op, ast.Not):
        e = _simplify_not(e)
    # the emptiness of a sized value has one key: len(x) == 0 is `not x`, len(x) > 0 is `x`
    if isinstance(e, ast.Compare) and len(e.ops) == 1 and isinstance(e.left, ast.Call) and isinstance(e.left.func, ast.Name) and e.left.func.id == "len" \
            and len(e.left.args) == 1 and isinstance(e.comparators[0], ast.Constant) and e.comparators[0].value == 0:
        if isinstance(e.ops[0], ast.Eq):
            e = ast.UnaryOp(op=ast.Not(), operand=e.left.args[0])
        elif isinstance(e.ops[0], (ast.Gt, ast.NotEq)):
            e = e.left.args[0]
    return alpha_key(ast.fix_missing_locations(ast.Expression(body=e)).body)


def set_parents(tree: ast.AST) -> None:
    for node in ast.walk(tree):
        for child in ast.iter_child_nodes(node):
            child._parent = node  # type: ignore[attr-defined]


def parent(node: ast.AST) -> Optional[ast.AST]:
    return getattr(node, "_parent", None)


def ancestors(node: ast.AST) -> Iterator[ast.AST]:
    p = parent(node)
    while p is not None:
        yield p
        p = parent(p)


def enclosing_stmt(node: ast.AST) -> Optional[ast.stmt]:
    cur: Optional[ast.AST] = node
    while cur is not None and not isinstance(cur, ast.stmt):
        cur = parent(cur)
    return cur  # type: ignore[return-value]


def enclosing_function(node: ast.AST) -> Optional[ast.AST]:
    for a in ancestors(node):
        if isinstance(a, (ast.FunctionDef, ast.AsyncFunctionDef, ast.Lambda)):
            return a
    return None


def unparse(node: ast.AST) -> str:
    try:
        return ast.unparse(node)
    except Exception:  # pragma: no cover
        return ast.dump(node)


def dotted(node: ast.AST) -> Optional[str]:
    """'a.b.c' for Name/Attribute chains, else None."""
    parts = []
    cur = node
    while isinstance(cur, ast.Attribute):
        parts.append(cur.attr)
        cur = cur.value
    if isinstance(cur, ast.Name):
        parts.append(cur.id)
        return ".".join(reversed(parts))
    return None


def call_name(node: ast.AST) -> Optional[str]:
    """Name of the callee for Call nodes: 'f' or 'obj.m' (dotted), else None."""
    if isinstance(node, ast.Call):
        return dotted(node.func)
    return None


def method_name(node: ast.AST) -> Optional[str]:
    """Last attribute of a method call `x.y.m(...)` -> 'm'."""
    if isinstance(node, ast.Call) and isinstance(node.func, ast.Attribute):
        return node.func.attr
    return None


def const_str(node: ast.AST) -> Optional[str]:
    if isinstance(node, ast.Constant) and isinstance(node.value, str):
        return node.value
    return None


def names_in(node: ast.AST) -> set[str]:
    return {n.id for n in ast.walk(node) if isinstance(n, ast.Name)}


def walk_no_nested(node: ast.AST, *, include_self: bool = True) -> Iterator[ast.AST]:
    """ast.walk that does not descend into nested function/class definitions
    (the root itself may be a function)."""
    stack = [node]
    first = True
    while stack:
        cur = stack.pop()
        if not first and isinstance(
            cur, (ast.FunctionDef, ast.AsyncFunctionDef, ast.ClassDef, ast.Lambda)
        ):
            # yield the definition node itself but not its body
            yield cur
            continue
        if include_self or not first:
            yield cur
        first = False
        stack.extend(reversed(list(ast.iter_child_nodes(cur))))


def alpha_key(node: ast.AST, keep: Iterable[str] = ()) -> str:
    """alpha-normalised text of an expression/statement: local names are
    renamed v1, v2 ... by first occurrence (names in `keep`, attribute names,
    keyword names and constants are kept)."""
    keep = set(keep)
    # a private copy without the parent links (deepcopy would follow them)
    src = unparse(node)
    try:
        if isinstance(node, ast.expr):
            node = ast.parse(src, mode="eval").body
        else:
            mod = ast.parse(src)
            node = mod.body[0] if len(mod.body) == 1 else mod
    except SyntaxError:
        return " ".join(src.split())
    mapping: dict[str, str] = {}

    class R(ast.NodeTransformer):
        def visit_Name(self, n: ast.Name) -> ast.AST:
            if n.id in keep or n.id in _BUILTIN_KEEP:
                return n
            if n.id not in mapping:
                mapping[n.id] = f"v{len(mapping) + 1}"
            return ast.copy_location(ast.Name(id=mapping[n.id], ctx=n.ctx), n)

        def visit_arg(self, n: ast.arg) -> ast.AST:
            if n.arg not in mapping:
                mapping[n.arg] = f"v{len(mapping) + 1}"
            n.arg = mapping[n.arg]
            return n

    out = R().visit(node)
    text = unparse(out)
    return " ".join(text.split())


_BUILTIN_KEEP = {
    "self", "len", "set", "list", "tuple", "dict", "sorted", "isinstance", "type",
    "next", "iter", "enumerate", "zip", "range", "min", "max", "sum", "any", "all",
    "str", "int", "bool", "object", "reversed", "frozenset", "deque", "print",
    "True", "False", "None", "ast", "id", "hash", "super", "getattr", "setattr",
    "callable", "replace", "functools",
}


def is_docstring(stmt: ast.stmt) -> bool:
    return (
        isinstance(stmt, ast.Expr)
        and isinstance(stmt.value, ast.Constant)
        and isinstance(stmt.value.value, str)
    )


def body_without_docstring(fn: ast.AST) -> list[ast.stmt]:
    body = list(getattr(fn, "body", []))
    if body and is_docstring(body[0]):
        return body[1:]
    return body


def lineno(node: ast.AST) -> int:
    return getattr(node, "lineno", 0)
