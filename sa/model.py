"""Program model: modules, classes (with dataclass fields and MRO), functions,
module-level constants and import aliases of the library under analysis."""
from __future__ import annotations

import ast
import os
from dataclasses import dataclass, field
from typing import Dict, Iterator, List, Optional, Tuple

from . import astutil as A


class AnalysisError(Exception):
    """The analysis cannot read what it needs (anchor vanished, unresolvable
    construct).  Reported as ANALYSIS-ERROR / exit 2, never as a violation."""


REPO = os.environ.get("SA_REPO", "/repo")
PKG = "numba_scfg"


@dataclass
class FieldInfo:
    name: str
    annotation: Optional[ast.AST]
    default: Optional[ast.AST]
    owner: str  # class that declares it
    init: bool = True
    compare: bool = True


@dataclass
class FunctionInfo:
    qualname: str  # e.g. "SCFG.insert_block", "loop_restructure_helper", "SCFGIO.to_dict.reverse_lookup"
    name: str
    module: "ModuleInfo"
    node: ast.AST  # FunctionDef
    cls: Optional["ClassInfo"] = None
    parent_fn: Optional["FunctionInfo"] = None
    decorators: List[str] = field(default_factory=list)

    @property
    def is_static(self) -> bool:
        return "staticmethod" in self.decorators

    @property
    def is_property(self) -> bool:
        return "property" in self.decorators

    @property
    def params(self) -> List[ast.arg]:
        a = self.node.args  # type: ignore[attr-defined]
        return list(a.posonlyargs) + list(a.args) + list(a.kwonlyargs)

    @property
    def where(self) -> str:
        return f"{self.module.relpath}:{A.lineno(self.node)}"

    def __hash__(self) -> int:
        return hash((self.module.name, self.qualname))

    def __eq__(self, other: object) -> bool:
        return isinstance(other, FunctionInfo) and (self.module.name, self.qualname) == (
            other.module.name,
            other.qualname,
        )


@dataclass
class ClassInfo:
    name: str
    module: "ModuleInfo"
    node: ast.ClassDef
    base_names: List[str]
    bases: List["ClassInfo"] = field(default_factory=list)
    dataclass: bool = False
    frozen: bool = False
    eq: bool = True
    own_fields: List[FieldInfo] = field(default_factory=list)
    methods: Dict[str, FunctionInfo] = field(default_factory=dict)
    parent_fn: Optional[FunctionInfo] = None

    def mro(self) -> List["ClassInfo"]:
        out: List[ClassInfo] = [self]
        for b in self.bases:
            for c in b.mro():
                if c not in out:
                    out.append(c)
        return out

    def is_subclass_of(self, other: "ClassInfo") -> bool:
        return other in self.mro()

    def fields(self) -> List[FieldInfo]:
        """dataclass fields in definition order, inherited first."""
        seen: Dict[str, FieldInfo] = {}
        for c in reversed(self.mro()):
            for f in c.own_fields:
                seen[f.name] = f
        return list(seen.values())

    def field(self, name: str) -> Optional[FieldInfo]:
        for f in self.fields():
            if f.name == name:
                return f
        return None

    def find_method(self, name: str) -> Optional[FunctionInfo]:
        for c in self.mro():
            if name in c.methods:
                return c.methods[name]
        return None

    def __hash__(self) -> int:
        return hash((self.module.name, self.name))

    def __eq__(self, other: object) -> bool:
        return isinstance(other, ClassInfo) and (self.module.name, self.name) == (
            other.module.name,
            other.name,
        )


@dataclass
class ModuleInfo:
    name: str  # dotted
    path: str
    relpath: str
    tree: ast.Module
    source: str
    imports: Dict[str, str] = field(default_factory=dict)  # local alias -> dotted target
    constants: Dict[str, ast.AST] = field(default_factory=dict)  # module-level NAME = expr
    classes: Dict[str, ClassInfo] = field(default_factory=dict)
    functions: Dict[str, FunctionInfo] = field(default_factory=dict)  # by qualname


class Program:
    def __init__(self, repo: str = REPO) -> None:
        self.repo = repo
        self.modules: Dict[str, ModuleInfo] = {}
        self.classes: Dict[str, ClassInfo] = {}  # by simple name (unique in this library)
        self.functions: List[FunctionInfo] = []
        self._by_node: Dict[int, FunctionInfo] = {}
        self._load()

    # ------------------------------------------------------------------ load
    def _load(self) -> None:
        root = os.path.join(self.repo, PKG)
        if not os.path.isdir(root):
            raise AnalysisError(f"package directory {root} not found")
        for dirpath, dirnames, filenames in os.walk(root):
            dirnames[:] = sorted(d for d in dirnames if d not in ("tests", "__pycache__"))
            for fn in sorted(filenames):
                if not fn.endswith(".py"):
                    continue
                path = os.path.join(dirpath, fn)
                rel = os.path.relpath(path, self.repo)
                mod = rel[:-3].replace(os.sep, ".")
                if mod.endswith(".__init__"):
                    mod = mod[: -len(".__init__")]
                src = open(path, encoding="utf-8").read()
                try:
                    tree = ast.parse(src, filename=path)
                except SyntaxError as e:
                    raise AnalysisError(f"cannot parse {rel}: {e}")
                self.modules[mod] = ModuleInfo(mod, path, rel, tree, src)
        # helpers that the rules do not name are dissolved into their callers (sa/inline.py), then every
        # module is brought into the normal form of astutil.canonicalise
        from . import inline as _inline

        self.inline_notes = _inline.inline_helpers({k: v.tree for k, v in self.modules.items()})
        for mi in self.modules.values():
            A.canonicalise(mi.tree)
            A.set_parents(mi.tree)
        for m in self.modules.values():
            self._index_module(m)
        # resolve bases
        for c in self.all_classes():
            for bn in c.base_names:
                b = self.resolve_class(c.module, bn)
                if b is not None:
                    c.bases.append(b)

    def _index_module(self, m: ModuleInfo) -> None:
        for node in ast.walk(m.tree):
            if isinstance(node, ast.Import):
                for a in node.names:
                    m.imports.setdefault(a.asname or a.name.split(".")[0], a.name)
            elif isinstance(node, ast.ImportFrom):
                base = node.module or ""
                for a in node.names:
                    m.imports.setdefault(a.asname or a.name, f"{base}.{a.name}")
        for stmt in m.tree.body:
            if isinstance(stmt, ast.Assign) and len(stmt.targets) == 1 and isinstance(stmt.targets[0], ast.Name):
                m.constants[stmt.targets[0].id] = stmt.value
            elif isinstance(stmt, ast.AnnAssign) and isinstance(stmt.target, ast.Name) and stmt.value is not None:
                m.constants[stmt.target.id] = stmt.value
        self._index_body(m, m.tree.body, prefix="", cls=None, parent_fn=None)

    def _index_body(self, m, body, prefix, cls, parent_fn) -> None:
        for stmt in body:
            if isinstance(stmt, (ast.FunctionDef, ast.AsyncFunctionDef)):
                q = prefix + stmt.name
                decos = [A.dotted(d) or A.dotted(getattr(d, "func", d)) or "" for d in stmt.decorator_list]
                decos = [d.split(".")[-1] for d in decos]
                fi = FunctionInfo(q, stmt.name, m, stmt, cls=cls, parent_fn=parent_fn, decorators=decos)
                m.functions[q] = fi
                self.functions.append(fi)
                self._by_node[id(stmt)] = fi
                if cls is not None:
                    cls.methods.setdefault(stmt.name, fi)
                # nested definitions
                self._index_nested(m, stmt, q + ".", cls, fi)
            elif isinstance(stmt, ast.ClassDef):
                ci = self._make_class(m, stmt, parent_fn)
                m.classes[stmt.name] = ci
                self.classes.setdefault(stmt.name, ci)
                self._index_body(m, stmt.body, prefix + stmt.name + ".", ci, parent_fn)

    def _index_nested(self, m, fn_node, prefix, cls, fi) -> None:
        # functions / classes defined anywhere inside fn_node (not inside deeper defs)
        for node in A.walk_no_nested(fn_node, include_self=False):
            if node is fn_node:
                continue
            if isinstance(node, (ast.FunctionDef, ast.AsyncFunctionDef)):
                q = prefix + node.name
                nfi = FunctionInfo(q, node.name, m, node, cls=None, parent_fn=fi)
                m.functions[q] = nfi
                self.functions.append(nfi)
                self._by_node[id(node)] = nfi
                self._index_nested(m, node, q + ".", None, nfi)
            elif isinstance(node, ast.ClassDef):
                ci = self._make_class(m, node, fi)
                m.classes.setdefault(node.name, ci)
                self.classes.setdefault(node.name, ci)
                for s in node.body:
                    if isinstance(s, (ast.FunctionDef, ast.AsyncFunctionDef)):
                        q = prefix + node.name + "." + s.name
                        nfi = FunctionInfo(q, s.name, m, s, cls=ci, parent_fn=fi)
                        ci.methods[s.name] = nfi
                        m.functions[q] = nfi
                        self.functions.append(nfi)
                        self._by_node[id(s)] = nfi
                        self._index_nested(m, s, q + ".", ci, nfi)

    def _make_class(self, m: ModuleInfo, node: ast.ClassDef, parent_fn) -> ClassInfo:
        base_names = []
        for b in node.bases:
            if isinstance(b, ast.Subscript):
                b = b.value
            d = A.dotted(b)
            if d:
                base_names.append(d)
        ci = ClassInfo(node.name, m, node, base_names, parent_fn=parent_fn)
        for d in node.decorator_list:
            dn = A.dotted(d.func if isinstance(d, ast.Call) else d) or ""
            if dn.split(".")[-1] == "dataclass":
                ci.dataclass = True
                if isinstance(d, ast.Call):
                    for kw in d.keywords:
                        if kw.arg == "frozen" and isinstance(kw.value, ast.Constant):
                            ci.frozen = bool(kw.value.value)
                        if kw.arg == "eq" and isinstance(kw.value, ast.Constant):
                            ci.eq = bool(kw.value.value)
        for s in node.body:
            if isinstance(s, ast.AnnAssign) and isinstance(s.target, ast.Name):
                fi = FieldInfo(s.target.id, s.annotation, s.value, node.name)
                if isinstance(s.value, ast.Call) and (A.dotted(s.value.func) or "").split(".")[-1] == "field":
                    for kw in s.value.keywords:
                        if kw.arg == "init" and isinstance(kw.value, ast.Constant):
                            fi.init = bool(kw.value.value)
                        if kw.arg == "compare" and isinstance(kw.value, ast.Constant):
                            fi.compare = bool(kw.value.value)
                ci.own_fields.append(fi)
        return ci

    # --------------------------------------------------------------- queries
    def all_classes(self) -> Iterator[ClassInfo]:
        seen = set()
        for m in self.modules.values():
            for c in m.classes.values():
                if id(c) not in seen:
                    seen.add(id(c))
                    yield c

    def module(self, suffix: str) -> ModuleInfo:
        for name, m in self.modules.items():
            if name == suffix or name.endswith("." + suffix):
                return m
        raise AnalysisError(f"anchor module '{suffix}' not found")

    def cls(self, name: str) -> ClassInfo:
        c = self.classes.get(name)
        if c is None:
            raise AnalysisError(f"anchor class '{name}' not found")
        return c

    def function(self, qualname: str, module: Optional[str] = None) -> FunctionInfo:
        f = self.find_function(qualname, module)
        if f is None:
            raise AnalysisError(f"anchor function '{qualname}' not found")
        return f

    def find_function(self, qualname: str, module: Optional[str] = None) -> Optional[FunctionInfo]:
        cands = [
            f
            for f in self.functions
            if f.qualname == qualname and (module is None or f.module.name.endswith(module))
        ]
        if len(cands) == 1:
            return cands[0]
        if len(cands) > 1:
            raise AnalysisError(f"ambiguous anchor '{qualname}': {[c.where for c in cands]}")
        return None

    def function_of_node(self, node: ast.AST) -> Optional[FunctionInfo]:
        cur: Optional[ast.AST] = node
        while cur is not None:
            fi = self._by_node.get(id(cur))
            if fi is not None:
                return fi
            cur = A.parent(cur)
        return None

    def resolve_dotted(self, m: ModuleInfo, name: str) -> Tuple[str, object]:
        """Resolve a (possibly dotted) name used in module m.
        Returns (kind, obj): kind in {'class','function','module','const','external','unknown'}"""
        head, _, rest = name.partition(".")
        if head in m.classes and not rest:
            return "class", m.classes[head]
        if head in m.functions and not rest:
            return "function", m.functions[head]
        if head in m.constants and not rest and head not in m.imports:
            return "const", (m, m.constants[head])
        if head in m.imports:
            target = m.imports[head]
            full = target + ("." + rest if rest else "")
            return self._resolve_abs(full)
        return "unknown", name

    def _resolve_abs(self, full: str) -> Tuple[str, object]:
        if full in self.modules:
            return "module", self.modules[full]
        modname, _, attr = full.rpartition(".")
        if modname in self.modules:
            mm = self.modules[modname]
            if attr in mm.classes:
                return "class", mm.classes[attr]
            if attr in mm.functions:
                return "function", mm.functions[attr]
            if attr in mm.constants:
                return "const", (mm, mm.constants[attr])
            if attr in mm.imports:
                return self._resolve_abs(mm.imports[attr])
            return "unknown", full
        if not full.startswith(PKG):
            return "external", full
        # deeper attribute (module.Class.attr)
        m2, _, a2 = modname.rpartition(".")
        if m2 in self.modules and a2 in self.modules[m2].classes:
            return "classattr", (self.modules[m2].classes[a2], attr)
        return "unknown", full

    def resolve_class(self, m: ModuleInfo, name: str) -> Optional[ClassInfo]:
        kind, obj = self.resolve_dotted(m, name)
        if kind == "class":
            return obj  # type: ignore[return-value]
        return None

    def subclasses(self, c: ClassInfo, strict: bool = False) -> List[ClassInfo]:
        out = [k for k in self.all_classes() if k.is_subclass_of(c) and (not strict or k != c)]
        return out

    # ---------------------------------------------------------------- constant folding of module-level tables
    def module_consts(self, m: ModuleInfo) -> Dict[str, object]:
        """Values of the module-level names that are built from constants: the top-level statements are folded
        in order (assignments of constant expressions, `T.update(..)` / `T.add(..)` / `T |= ..` on such a name,
        comprehensions and itertools.product over constant sequences, f-strings over the loop variables).
        Nothing of the library is executed; a statement that is not of this kind is skipped and takes the names
        it binds out of the table."""
        cache = getattr(self, "_module_consts", None)
        if cache is None:
            cache = self._module_consts = {}
        if m.name in cache:
            return cache[m.name]
        env: Dict[str, object] = {}
        cache[m.name] = env

        class NotConst(Exception):
            pass

        def ev(e, loc):
            if isinstance(e, ast.Constant):
                return e.value
            if isinstance(e, ast.Name):
                if e.id in loc:
                    return loc[e.id]
                if e.id in env:
                    return env[e.id]
                if e.id in m.imports:
                    kind, obj = self.resolve_dotted(m, e.id)
                    if kind == "const":
                        mm, _val = obj
                        other = self.module_consts(mm)
                        nm = m.imports[e.id].rpartition(".")[2]
                        if nm in other:
                            return other[nm]
                    if kind == "class":
                        return obj
                if e.id in m.classes:
                    return m.classes[e.id]
                raise NotConst(e.id)
            if isinstance(e, ast.Attribute):
                d = A.dotted(e)
                if d:
                    kind, obj = self.resolve_dotted(m, d)
                    if kind == "const":
                        mm, _val = obj
                        other = self.module_consts(mm)
                        if e.attr in other:
                            return other[e.attr]
                    if kind == "class":
                        return obj
                raise NotConst(A.unparse(e))
            if isinstance(e, (ast.Tuple, ast.List, ast.Set)):
                vals = []
                for x in e.elts:
                    if isinstance(x, ast.Starred):
                        vals.extend(ev(x.value, loc))
                    else:
                        vals.append(ev(x, loc))
                return tuple(vals) if isinstance(e, ast.Tuple) else (list(vals) if isinstance(e, ast.List) else set(vals))
            if isinstance(e, ast.Dict):
                out = {}
                for k, v in zip(e.keys, e.values):
                    if k is None:
                        out.update(ev(v, loc))
                    else:
                        out[ev(k, loc)] = ev(v, loc)
                return out
            if isinstance(e, ast.JoinedStr):
                parts = []
                for x in e.values:
                    if isinstance(x, ast.Constant):
                        parts.append(str(x.value))
                    elif isinstance(x, ast.FormattedValue) and x.format_spec is None and x.conversion in (-1, 115):
                        parts.append(str(ev(x.value, loc)))
                    else:
                        raise NotConst("f-string")
                return "".join(parts)
            if isinstance(e, ast.BinOp) and isinstance(e.op, (ast.Add, ast.BitOr, ast.BitAnd, ast.Sub, ast.Mult)):
                a, b = ev(e.left, loc), ev(e.right, loc)
                try:
                    if isinstance(e.op, ast.Add):
                        return a + b
                    if isinstance(e.op, ast.BitOr):
                        return a | b
                    if isinstance(e.op, ast.BitAnd):
                        return a & b
                    if isinstance(e.op, ast.Sub):
                        return a - b
                    if isinstance(a, int) and isinstance(b, int):
                        return a * b
                except Exception:
                    pass
                raise NotConst("binop")
            if isinstance(e, (ast.ListComp, ast.SetComp, ast.GeneratorExp, ast.DictComp)):
                res = []

                def rec(gi, loc2):
                    if len(res) > 5000:
                        raise NotConst("too large")
                    if gi == len(e.generators):
                        if isinstance(e, ast.DictComp):
                            res.append((ev(e.key, loc2), ev(e.value, loc2)))
                        else:
                            res.append(ev(e.elt, loc2))
                        return
                    g = e.generators[gi]
                    for item in ev(g.iter, loc2):
                        l3 = dict(loc2)
                        bind(g.target, item, l3)
                        if all(truth(c, l3) for c in g.ifs):
                            rec(gi + 1, l3)

                rec(0, dict(loc))
                if isinstance(e, ast.DictComp):
                    return dict(res)
                return set(res) if isinstance(e, ast.SetComp) else list(res)
            if isinstance(e, ast.Call) and not e.keywords:
                fn = (A.dotted(e.func) or "").split(".")[-1]
                args = [ev(a, loc) for a in e.args]
                if fn in ("set", "frozenset"):
                    return set(args[0]) if args else set()
                if fn in ("tuple",):
                    return tuple(args[0]) if args else ()
                if fn in ("list", "sorted"):
                    v = list(args[0]) if args else []
                    return sorted(v) if fn == "sorted" else v
                if fn in ("dict", "MappingProxyType", "OrderedDict") and len(args) <= 1:
                    return dict(args[0]) if args else {}
                if fn == "product":
                    import itertools as _it

                    return list(_it.product(*[list(a) for a in args]))
                if fn == "chain":
                    out2 = []
                    for a in args:
                        out2.extend(a)
                    return out2
                if fn == "str" and len(args) == 1 and isinstance(args[0], (int, str)):
                    return str(args[0])
                if fn == "format" and isinstance(e.func, ast.Attribute):
                    base = ev(e.func.value, loc)
                    if isinstance(base, str) and all(isinstance(a, (int, str)) for a in args):
                        return base.format(*args)
            raise NotConst(type(e).__name__)

        def truth(c, loc):
            if isinstance(c, ast.Compare) and len(c.ops) == 1:
                a, b = ev(c.left, loc), ev(c.comparators[0], loc)
                op = c.ops[0]
                if isinstance(op, ast.Eq):
                    return a == b
                if isinstance(op, ast.NotEq):
                    return a != b
                if isinstance(op, ast.In):
                    return a in b
                if isinstance(op, ast.NotIn):
                    return a not in b
            raise NotConst("condition")

        def bind(t, v, loc):
            if isinstance(t, ast.Name):
                loc[t.id] = v
            elif isinstance(t, (ast.Tuple, ast.List)):
                v = list(v)
                if len(v) != len(t.elts):
                    raise NotConst("unpack")
                for a, b in zip(t.elts, v):
                    bind(a, b, loc)
            else:
                raise NotConst("target")

        import copy as _copy

        def run(st, loc, depth=0):
            if isinstance(st, ast.Assign) and len(st.targets) == 1 and isinstance(st.targets[0], ast.Name):
                (loc if depth else env)[st.targets[0].id] = ev(st.value, loc)
            elif isinstance(st, ast.AnnAssign) and isinstance(st.target, ast.Name) and st.value is not None:
                (loc if depth else env)[st.target.id] = ev(st.value, loc)
            elif isinstance(st, ast.AugAssign) and isinstance(st.target, ast.Name) and st.target.id in env and isinstance(st.op, (ast.BitOr, ast.Add)):
                cur, v = _copy.copy(env[st.target.id]), ev(st.value, loc)
                env[st.target.id] = (cur | v) if isinstance(st.op, ast.BitOr) else (cur + v)
            elif isinstance(st, ast.Expr) and isinstance(st.value, ast.Call) and isinstance(st.value.func, ast.Attribute) and isinstance(st.value.func.value, ast.Name) and st.value.func.value.id in env and st.value.func.attr in ("update", "add", "extend", "append", "discard", "remove") and len(st.value.args) == 1 and not st.value.keywords:
                nm = st.value.func.value.id
                cur = _copy.copy(env[nm])
                v = ev(st.value.args[0], loc)
                getattr(cur, st.value.func.attr)(v)
                env[nm] = cur
            elif isinstance(st, ast.For) and not st.orelse and depth < 3:
                n_iter = 0
                for item in ev(st.iter, loc):
                    n_iter += 1
                    if n_iter > 5000:
                        raise NotConst("too many iterations")
                    l2 = dict(loc)
                    bind(st.target, item, l2)
                    for b in st.body:
                        run(b, l2, depth + 1)
            elif isinstance(st, ast.If) and depth < 3:
                for b in (st.body if truth(st.test, loc) else st.orelse):
                    run(b, loc, depth + 1)
            elif isinstance(st, (ast.Pass,)) or (isinstance(st, ast.Expr) and isinstance(st.value, ast.Constant)):
                pass
            elif depth:
                raise NotConst("statement")

        for st in m.tree.body:
            try:
                run(st, {})
            except (NotConst, Exception):
                for n_ in ast.walk(st):
                    if isinstance(n_, ast.Name) and isinstance(n_.ctx, ast.Store):
                        env.pop(n_.id, None)
                for c_ in ast.walk(st):
                    if isinstance(c_, ast.Call) and isinstance(c_.func, ast.Attribute) and isinstance(c_.func.value, ast.Name):
                        env.pop(c_.func.value.id, None)
        return env

    def const_value(self, m: ModuleInfo, node: ast.AST, depth: int = 0):
        """Evaluate a module-level constant expression to a Python value
        (str/int/tuple/set/dict of those).  Raises AnalysisError if not constant."""
        if depth > 10:
            raise AnalysisError("constant resolution too deep")
        if isinstance(node, ast.Constant):
            return node.value
        if isinstance(node, (ast.Name, ast.Attribute)):
            d = A.dotted(node)
            if d:
                kind, obj = self.resolve_dotted(m, d)
                if kind == "const":
                    mm, val = obj  # type: ignore[misc]
                    return self.const_value(mm, val, depth + 1)
                if kind == "class":
                    return obj
        if isinstance(node, ast.Call) and (A.dotted(node.func) or "").split(".")[-1] in ("MappingProxyType", "dict", "OrderedDict") and len(node.args) == 1 and not node.keywords:
            # a read-only / copied view of a table is the table
            return self.const_value(m, node.args[0], depth + 1)
        if isinstance(node, ast.Call) and isinstance(node.func, ast.Name) and node.func.id in ("frozenset", "set", "tuple", "list") and len(node.args) <= 1 and not node.keywords:
            if not node.args:
                return set() if node.func.id in ("frozenset", "set") else ()
            inner = self.const_value(m, node.args[0], depth + 1)
            return set(inner) if node.func.id in ("frozenset", "set") else tuple(inner)
        if isinstance(node, (ast.Set, ast.Tuple, ast.List)):
            vals = [self.const_value(m, e, depth + 1) for e in node.elts]
            return set(vals) if isinstance(node, ast.Set) else tuple(vals)
        if isinstance(node, ast.Dict):
            return {
                self.const_value(m, k, depth + 1): self.const_value(m, v, depth + 1)
                for k, v in zip(node.keys, node.values)
                if k is not None
            }
        # a table that is built by folding module-level statements (comprehensions, product, later updates)
        for nm_, val_ in m.constants.items():
            if val_ is node:
                folded = self.module_consts(m)
                if nm_ in folded:
                    return folded[nm_]
        raise AnalysisError(f"not a constant expression: {A.unparse(node)}")
