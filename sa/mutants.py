"""Seeded variants of the repository used to test the checker both ways.

Each variant is a textual edit (old -> new, must match exactly once) of one
library file.  'breaking' variants must make the named rule report a NEW
violation; 'benign' variants must leave every rule silent.  A variant whose
anchor text no longer exists in the tree is skipped."""
from __future__ import annotations

from typing import Dict, List

SCFG = "core/datastructures/scfg.py"
TR = "core/transformations.py"
BB = "core/datastructures/basic_block.py"
AT = "core/datastructures/ast_transforms.py"
UT = "core/utils.py"
FI = "core/datastructures/flow_info.py"
RE = "rendering/rendering.py"
BN = "core/datastructures/block_names.py"


def M(id, kind, file, old, new, rules, note=""):
    return {"id": id, "kind": kind, "file": file, "old": old, "new": new, "rules": rules, "note": note}


MUTANTS: List[Dict] = [
    # ------------------------------------------------ reverted fix hunks
    M("rev-opcodes-none", "breaking", UT, '    "POP_JUMP_IF_NOT_NONE",\n    "POP_JUMP_IF_NONE",\n', "", ["TABLE-1"], "revert fix 4d15789 (cond jumps)"),
    M("rev-opcodes-const", "breaking", UT, '_terminating = {"RETURN_VALUE", "RETURN_CONST"}', '_terminating = {"RETURN_VALUE"}', ["TABLE-1"], "revert fix 4d15789 (RETURN_CONST)"),
    M("rev-per-arc", "breaking", SCFG,
      """                jt[jt.index(s)] = synth_assign
                block = self.graph.pop(name).replace_jump_targets(
                    jump_targets=tuple(jt)
                )
                # If the predecessor is a region, the exiting block inside
                # of it needs to point to the assignment block too.
                if isinstance(block, RegionBlock):
                    block = update_exiting(block, s, synth_assign)
                self.add_block(block)
""",
      """                jt[jt.index(s)] = synth_assign
            block = self.graph.pop(name).replace_jump_targets(
                jump_targets=tuple(jt)
            )
            if isinstance(block, RegionBlock):
                block = update_exiting(block, s, synth_assign)
            self.add_block(block)
""", ["STORE-5"], "revert fix d97d576: one call after the arc loop"),
    M("rev-region-prop-ib", "breaking", SCFG,
      """            if isinstance(block, RegionBlock):
                for s in successors:
                    block = update_exiting(block, s, new_name)
            self.add_block(block)
""", "            self.add_block(block)\n", ["STORE-6"], "revert fix 5d19321 in insert_block"),
    M("rev-region-prop-ibcb", "breaking", SCFG,
      """                if isinstance(block, RegionBlock):
                    block = update_exiting(block, s, synth_assign)
                self.add_block(block)
""", "                self.add_block(block)\n", ["STORE-6"], "revert fix 5d19321 in insert_block_and_control_blocks"),
    M("rev-join-tails", "breaking", SCFG, "if len(tails) == 1 and len(exits) >= 2:", "if len(tails) == 1 and len(exits) == 2:", ["TOTAL-1"], "revert fix 73097d6"),
    M("rev-todict-set", "breaking", SCFG,
      "        q: List[Tuple[str, BasicBlock]] = list(scfg.graph.items())\n",
      "        q: Set[Tuple[str, BasicBlock]] = set()\n        q.update(scfg.graph.items())\n", ["ORD-4"], "revert fix 8f509e5"),
    M("rev-todict-sorted", "breaking", SCFG, "            edges[key] = [i for i in value._jump_targets]\n", "            edges[key] = sorted([i for i in value._jump_targets])\n", ["ORD-3"], "revert fix e31d36b"),
    M("rev-todict-sorted-be", "breaking", SCFG, "            backedges[key] = [i for i in value.backedges]\n", "            backedges[key] = sorted([i for i in value.backedges])\n", ["ORD-3"], "revert fix e31d36b (back edges)"),
    M("rev-yaml-quote", "breaking", SCFG, 'ys += indent(f"{k}: {v!r}\\n", " " * 12)', 'ys += indent(f"{k}: {v}\\n", " " * 12)', ["DISP-8"], "revert fix e424052"),
    M("rev-prune-elif", "breaking", AT,
      """                        if b.jump_targets[0] == name:
                            b.jump_targets[0] = it
                        if b.jump_targets[1] == name:
                            b.jump_targets[1] = it""",
      """                        if b.jump_targets[0] == name:
                            b.jump_targets[0] = it
                        elif b.jump_targets[1] == name:
                            b.jump_targets[1] = it""", ["STORE-10"], "revert fix 97cfca1"),
    M("rev-keep-entry", "breaking", AT,
      """            if name == "0":
                continue
""", "", ["LOWER-6"], "revert fix da3639d"),
    M("rev-branch-test", "breaking", AT,
      """                if isinstance(block.tree[-1], ast.Expr):
                    # An expression statement, e.g. from the for-loop header
                    test = block.tree[-1].value
                else:
                    # A bare expression of any kind, emitted as branch test
                    test = cast(ast.expr, block.tree[-1])
""",
      """                if type(block.tree[-1]) in (ast.Name, ast.Compare):
                    test = cast(ast.expr, block.tree[-1])
                else:
                    test = cast(ast.Expr, block.tree[-1]).value
""", ["DISP-5"], "revert fix b6c1db4"),
    M("rev-nested-def", "breaking", AT,
      """        if isinstance(
            node,
            (
                ast.AugAssign,""",
      """        if isinstance(node, ast.FunctionDef):
            self.handle_function_def(node)
        elif isinstance(
            node,
            (
                ast.AugAssign,""", ["DISP-3", "DISP-1"], "revert fix 6a532e1"),
    M("rev-reader-pointers", "breaking", SCFG,
      """                object.__setattr__(region, "parent_region", scfg.region)
                object.__setattr__(region.subregion, "region", region)
""", "", ["DISP-9"], "revert fix 5c78ebb"),
    M("rev-reader-region-ptr", "breaking", SCFG,
      """                object.__setattr__(region.subregion, "region", region)
""", "", ["DISP-9"], "only the sub-graph back pointer dropped"),
    M("rev-seed-namegen", "breaking", SCFG,
      """                name_gen.kinds[kind] = max(
                    name_gen.kinds.get(kind, 0), index + 1
                )
""", "                pass\n", ["NAME-4"], "revert fix 5335f28"),
    # ------------------------------------------------ ORD
    M("ord1-unsorted-loop", "breaking", TR, "    for name in sorted(loop):\n", "    for name in loop:\n", ["ORD-1"], "names of assignment blocks follow the set order"),
    M("ord1-unsorted-region", "breaking", TR, "{name: scfg.graph[name] for name in sorted(region_blocks)}", "{name: scfg.graph[name] for name in region_blocks}", ["ORD-1"], "sub-graph insertion order follows the set order"),
    M("ord1-unsorted-headers", "breaking", SCFG, "        return sorted(headers), sorted(entries)\n", "        return list(headers), sorted(entries)\n", ["ORD-1"]),
    M("ord1-unsorted-entries", "breaking", SCFG, "        return sorted(headers), sorted(entries)\n", "        return sorted(headers), list(entries)\n", ["ORD-1"]),
    M("ord1-unsorted-exits", "breaking", SCFG, "        return sorted(exiting), sorted(exits)\n", "        return sorted(exiting), list(exits)\n", ["ORD-1"]),
    M("ord1-unsorted-exiting", "breaking", SCFG, "        return sorted(exiting), sorted(exits)\n", "        return list(exiting), sorted(exits)\n", ["ORD-1"]),
    M("ord1-unsorted-arcs", "breaking", SCFG, "            for s in sorted(set(jt).intersection(successors)):\n", "            for s in set(jt).intersection(successors):\n", ["ORD-1"]),
    M("ord1-unsorted-heads", "breaking", SCFG, "        queue = deque(sorted(curr_heads))\n", "        queue = deque(curr_heads)\n", ["ORD-1"]),
    M("ord1-unsorted-offsets", "breaking", FI, "        offsets = sorted(self.block_offsets)\n", "        offsets = list(self.block_offsets)\n", ["ORD-1"]),
    M("ord1-pick-any-header", "breaking", TR, "        loop_head = next(iter(headers))\n", "        loop_head = next(iter(set(headers) | loop))\n", ["ORD-1"]),
    M("ord2-random", "breaking", SCFG, "import dis\nimport re\n", "import dis\nimport random\nimport re\n", ["ORD-2"]),
    M("ord2-id", "breaking", SCFG, '            name = str(kind) + "_region_" + str(idx)\n            self.kinds[kind] = idx + 1\n        else:', '            name = str(kind) + "_region_" + str(idx + id(self) % 2)\n            self.kinds[kind] = idx + 1\n        else:', ["ORD-2"]),
    M("ord3-sorted-insert", "breaking", SCFG, "            block = block.replace_jump_targets(jump_targets=tuple(jt))\n", "            block = block.replace_jump_targets(jump_targets=tuple(sorted(jt)))\n", ["ORD-3"]),
    M("ord3-set-update-exiting", "breaking", TR, "    region_exiting_block = region_exiting_block.replace_jump_targets(\n        jump_targets=tuple(jt)\n    )", "    region_exiting_block = region_exiting_block.replace_jump_targets(\n        jump_targets=tuple(set(jt))\n    )", ["ORD-3"]),
    M("ord3-reader-sorted", "breaking", SCFG, "        block_edges = tuple(block_ref_dict[idx] for idx in edges[current_name])\n", "        block_edges = tuple(sorted(block_ref_dict[idx] for idx in edges[current_name]))\n", ["ORD-3"]),
    M("ord3-astblock-reversed", "breaking", AT, "                _jump_targets=tuple(v.jump_targets),\n", "                _jump_targets=tuple(reversed(v.jump_targets)),\n", ["ORD-3"]),
    # ------------------------------------------------ STORE
    M("store1-setattr-targets", "breaking", SCFG, "            block = block.replace_jump_targets(jump_targets=tuple(jt))\n", '            object.__setattr__(block, "_jump_targets", tuple(jt))\n', ["STORE-1"]),
    M("store1-replace-payload", "breaking", TR, "        entry = entry.replace_backedges(backedges=tuple(be))\n", "        entry = entry.replace_backedges(backedges=tuple(be))\n        entry = replace(entry, name=entry.name)\n", ["STORE-1"], "rewrites an identity field (needs the import too, still parses)"),
    M("store2-rebuild-member", "breaking", TR, "                    block = scfg.graph.pop(name)\n                    jts = list(block.jump_targets)\n", "                    block = BasicBlock(name=name, _jump_targets=scfg.graph.pop(name)._jump_targets)\n                    jts = list(block.jump_targets)\n", ["STORE-2"], "an original block is rebuilt as a plain BasicBlock: payload lost"),
    M("store3-drop-add-extract", "breaking", TR, "            entry = update_exiting(entry, region_header, region_name)\n        scfg.add_block(entry)\n", "            entry = update_exiting(entry, region_header, region_name)\n", ["STORE-3"]),
    M("store3-continue-before-add", "breaking", TR, "        entry = entry.replace_backedges(backedges=tuple(be))\n", "        entry = entry.replace_backedges(backedges=tuple(be))\n        if not jt:\n            continue\n", ["STORE-3"]),
    M("store3-drop-add-update-exiting", "breaking", TR, "    region_block.subregion.add_block(region_exiting_block)\n    return region_block\n", "    return region_block\n", ["STORE-3"]),
    M("store3-copy-not-move", "breaking", TR, "{name: scfg.graph[name] for name in sorted(region_blocks)}", "{name: replace(scfg.graph[name]) for name in sorted(region_blocks)}", ["STORE-3"], "blocks copied instead of moved"),
    M("store4-remove-append", "breaking", TR, "                    new_jt[new_jt.index(jt)] = synth_assign\n                # If the target is the loop_head", "                    new_jt.remove(jt)\n                    new_jt.append(synth_assign)\n                # If the target is the loop_head", ["STORE-4"], "positions of the successors change"),
    M("store4-wrong-source", "breaking", TR, "        jt = list(entry._jump_targets)\n", "        jt = list(scfg.graph[region_header]._jump_targets)\n", ["STORE-4"], "targets of another block are written to the entry"),
    M("store5-two-stores", "breaking", SCFG, "                        if new_name not in jt:\n                            jt[jt.index(s)] = new_name\n", "                        if new_name not in jt:\n                            jt[jt.index(s)] = new_name + s\n", ["STORE-5"], "a different new name per successor"),
    M("store6-drop-extract-prop", "breaking", TR, "        if isinstance(entry, RegionBlock):\n            entry = update_exiting(entry, region_header, region_name)\n", "", ["STORE-6"]),
    M("store6-drop-recursion", "breaking", TR, "    if isinstance(region_exiting_block, RegionBlock):\n        region_exiting_block = update_exiting(\n            region_exiting_block, new_region_header, new_region_name\n        )\n", "", ["STORE-6"]),
    M("store6-wrong-pair", "breaking", SCFG, "                    block = update_exiting(block, s, new_name)\n", "                    block = update_exiting(block, new_name, s)\n", ["STORE-6"], "old/new swapped in the propagation"),
    M("store7-drop-backedge-rename-extract", "breaking", TR, "        be = list(entry.backedges)\n        for idx, s in enumerate(be):\n            if s == region_header:\n                be[idx] = region_name\n        entry = entry.replace_backedges(backedges=tuple(be))\n", "", ["STORE-7"]),
    M("store7-drop-backedge-rename-update", "breaking", TR, "    for idx, s in enumerate(be):\n        if s == new_region_header:\n            be[idx] = new_region_name\n", "", ["STORE-7"]),
    M("store8-drop-reparent", "breaking", TR, "    for k, v in region.subregion.graph.items():\n        if isinstance(v, RegionBlock):\n            object.__setattr__(v, \"parent_region\", region)\n", "", ["STORE-8"]),
    M("store8-drop-region-ptr", "breaking", TR, '    object.__setattr__(region.subregion, "region", region)\n', "", ["STORE-8"]),
    M("store8-drop-header-fixup", "breaking", TR, "    if region_header == parent_region.header:\n        parent_region.replace_header(region_name)\n", "", ["STORE-8"]),
    M("store8-drop-exiting-fixup", "breaking", TR, "    if region_exiting == parent_region.exiting:\n        parent_region.replace_exiting(region_name)\n", "", ["STORE-8"]),
    M("store8-targets-from-header", "breaking", TR, "        _jump_targets=scfg[region_exiting].jump_targets,\n", "        _jump_targets=scfg[region_header].jump_targets,\n", ["STORE-8"]),
    M("store8-wrong-kind", "breaking", TR, "        kind=region_kind,\n        header=region_header,", '        kind="head",\n        header=region_header,', ["STORE-8"]),
    M("store9-other-pop", "breaking", SCFG, "        for name in predecessors:\n            block = self.graph.pop(name)\n            jt = list(block.jump_targets)\n            if successors:", "        for name in predecessors + successors:\n            block = self.graph.pop(name)\n            jt = list(block.jump_targets)\n            if successors:", ["STORE-9"], "successors are rewritten too"),
    M("store9-new-block-targets", "breaking", SCFG, "            name=new_name, _jump_targets=tuple(successors), backedges=tuple()\n        )", "            name=new_name, _jump_targets=tuple(successors[:1]), backedges=tuple()\n        )", ["STORE-9"]),
    # ------------------------------------------------ CTRL
    M("ctrl1-latch-table", "breaking", TR, "            i: j for i, j in enumerate((loop_head, synth_exit))\n", "            i: j for i, j in enumerate((loop_head,))\n", ["CTRL-1"]),
    M("ctrl1-exit-branch-targets", "breaking", TR, "            _jump_targets=tuple(exit_blocks),\n", "            _jump_targets=tuple(exit_blocks[:-1]),\n", ["CTRL-1"]),
    M("ctrl2-wrong-table", "breaking", TR, "                        variable_assignment[exit_variable] = reverse_lookup(\n                            exit_value_table, jt\n                        )", "                        variable_assignment[exit_variable] = reverse_lookup(\n                            backedge_value_table, jt\n                        )", ["CTRL-2", "CTRL-9"]),
    M("ctrl2-wrong-var", "breaking", TR, "                    variable_assignment[backedge_variable] = reverse_lookup(\n                        backedge_value_table, loop_head\n                    )", "                    variable_assignment[exit_variable] = reverse_lookup(\n                        backedge_value_table, loop_head\n                    )", ["CTRL-2", "CTRL-3", "CTRL-9"]),
    M("ctrl3-drop-exit-assign", "breaking", TR, "                    if needs_synth_exit:\n                        variable_assignment[exit_variable] = reverse_lookup(\n                            exit_value_table, jt\n                        )\n", "", ["CTRL-3", "CTRL-9"]),
    M("ctrl3-header-guard", "breaking", TR, "                    if needs_synth_exit or headers_were_unified:\n", "                    if needs_synth_exit:\n", ["CTRL-3"], "head variable not assigned when only the headers were unified"),
    M("ctrl4-drop-increment", "breaking", SCFG, "                branch_variable_value += 1\n", "", ["CTRL-4"]),
    M("ctrl5-no-backedge-on-latch", "breaking", TR, "        backedges=(loop_head,),\n        variable=backedge_variable,", "        backedges=(),\n        variable=backedge_variable,", ["CTRL-5"]),
    M("ctrl5-skip-helper", "breaking", TR, "        loop_restructure_helper(scfg, loop)\n        extract_region(scfg, loop, \"loop\", parent_region)\n", "        if len(loop) > 1:\n            loop_restructure_helper(scfg, loop)\n        extract_region(scfg, loop, \"loop\", parent_region)\n", ["CTRL-5"], "self loops extracted without a declared back edge"),
    M("ctrl5-early-exit-no-declare", "breaking", TR, "        scfg.add_block(\n            scfg.graph.pop(backedge_blocks[0]).declare_backedge(loop_head)\n        )\n        return\n", "        return\n", ["CTRL-5"]),
    M("ctrl6-stale-tail", "breaking", TR, "    # Recompute regions.\n    head_region_blocks = find_head_blocks(scfg, begin)\n    branch_regions = find_branch_regions(scfg, begin, end)\n    tail_region_blocks = find_tail_blocks(\n        scfg, begin, head_region_blocks, branch_regions\n    )\n\n    # extract subregions", "    # extract subregions", ["CTRL-6"], "regions extracted from sets computed before the tail / fill insertion"),
    M("ctrl6-kind-rename", "breaking", TR, '    extract_region(scfg, tail_region_blocks, "tail", parent_region)\n', '    extract_region(scfg, tail_region_blocks, "tails", parent_region)\n', ["DISP-6", "CTRL-6"]),
    M("ctrl7-polarity", "breaking", TR, "            i: j for i, j in enumerate((loop_head, synth_exit))\n        }\n    else:\n        backedge_value_table = {\n            i: j for i, j in enumerate((loop_head, next(iter(exit_blocks))))", "            i: j for i, j in enumerate((synth_exit, loop_head))\n        }\n    else:\n        backedge_value_table = {\n            i: j for i, j in enumerate((next(iter(exit_blocks)), loop_head))", ["CTRL-7"], "value 0 now means exit, generated 'not var' continues on exit"),
    M("ctrl8-mismatched-pair", "breaking", TR, "        scfg.insert_block_and_control_blocks(end, entries, headers)\n", "        scfg.insert_block_and_control_blocks(end, sorted(branch_regions and [begin]), headers)\n", ["CTRL-8"]),
    M("ctrl9-swap-lookup-target", "breaking", TR, "                        variable_assignment[exit_variable] = reverse_lookup(\n                            header_value_table, jt\n                        )", "                        variable_assignment[exit_variable] = reverse_lookup(\n                            header_value_table, loop_head\n                        )", ["CTRL-9"]),
    M("ctrl9-entry-arc-table", "breaking", SCFG, "                branch_value_table[branch_variable_value] = s\n", "                branch_value_table[branch_variable_value] = successors[0]\n", ["CTRL-9", "CTRL-1"]),
    # ------------------------------------------------ DISP
    M("disp1-accept-with", "breaking", AT, "                ast.Expr,\n                ast.Return,\n            ),", "                ast.Expr,\n                ast.Return,\n                ast.With,\n            ),", ["DISP-1"]),
    M("disp1-accept-annassign", "breaking", AT, "                ast.AugAssign,\n                ast.Assign,", "                ast.AugAssign,\n                ast.AnnAssign,\n                ast.Assign,", ["DISP-1"]),
    M("disp1-accept-delete", "breaking", AT, "                ast.Continue,\n                ast.Pass,\n            ),", "                ast.Continue,\n                ast.Pass,\n                ast.Delete,\n                ast.Global,\n            ),", ["DISP-1"]),
    M("disp1-raise-to-pass", "breaking", AT, '            raise NotImplementedError(f"Node type {node} not implemented")', "            pass", ["DISP-1"]),
    M("disp1-raise-valueerror", "breaking", AT, '            raise NotImplementedError(f"Node type {node} not implemented")', '            raise ValueError(f"Node type {node} not implemented")', ["DISP-1"]),
    M("disp2-extend-orelse", "breaking", AT, "        # Recurs into the body of the else-branch, again this may modify the\n        # current_block.\n        self.codegen(node.orelse)\n", "        self.current_block.instructions.extend(node.orelse)\n", ["DISP-2"]),
    M("disp4-drop-assert", "breaking", AT, "        assert isinstance(self.tree[0], ast.FunctionDef)\n", "", ["DISP-4"]),
    M("disp5-only-attribute", "breaking", AT, "                if isinstance(block.tree[-1], ast.Expr):\n", "                if isinstance(block.tree[-1], (ast.Expr, ast.Attribute)):\n", ["DISP-5"]),
    M("disp6-widen-tail", "breaking", AT, "        elif type(block) is SyntheticAssignment:\n            # Synthetic assignments just", "        elif isinstance(block, SyntheticBlock):\n            return []\n        elif type(block) is SyntheticAssignment:\n            # Synthetic assignments just", ["DISP-6"], "needs import of SyntheticBlock; still parses"),
    M("disp6-kind-arm-dropped", "breaking", AT, '            if block.kind in ("head", "tail", "branch"):', '            if block.kind in ("head", "branch"):', ["DISP-6"]),
    M("disp7-generic-first", "breaking", RE, "        if type(block) == BasicBlock:  # noqa: E721\n            self.render_basic_block(digraph, name, block)\n", "        if isinstance(block, SyntheticBlock):\n            self.render_basic_block(digraph, name, block)\n        elif type(block) == BasicBlock:  # noqa: E721\n            self.render_basic_block(digraph, name, block)\n", ["DISP-7"]),
    M("disp7-drop-variable-label", "breaking", RE, '            branches = rf"variable: {block.variable}\\l" + r"\\l".join(', '            branches = r"\\l".join(', ["DISP-7"]),
    M("disp7-backedges-solid", "breaking", RE, '                        style="dashed",\n', "", ["DISP-7"]),
    M("disp8-drop-registry", "breaking", BB, "    block_names.SYNTH_FILL: SyntheticFill,\n", "", ["DISP-8"]),
    M("disp8-writer-omits-variable", "breaking", SCFG, '                blocks[key]["variable"] = value.variable\n', "", ["DISP-8"]),
    M("disp8-reader-pops-exiting", "breaking", SCFG, '                block_info.pop("contains")\n', '                block_info.pop("contains")\n                block_info.pop("exiting")\n', ["DISP-8"]),
    # ------------------------------------------------ TABLE
    M("table1-drop-pjit", "breaking", UT, '    "POP_JUMP_IF_TRUE",\n', "", ["TABLE-1"]),
    M("table1-forward-cond", "breaking", UT, '_uncond_jump = {"JUMP_ABSOLUTE", "JUMP_FORWARD", "JUMP_BACKWARD"}', '_uncond_jump = {"JUMP_ABSOLUTE", "JUMP_BACKWARD"}\n_cond_jump.add("JUMP_FORWARD")', ["TABLE-1"], "table built by mutation is not a constant: unresolved is acceptable"),
    M("table2-swap-tuple", "breaking", FI, "                    inst.offset, (_next_inst_offset(inst.offset), inst.argval)\n", "                    inst.offset, (inst.argval, _next_inst_offset(inst.offset))\n", ["TABLE-2"]),
    M("table4-skip-add", "breaking", FI, "            assert isinstance(off, int)\n            self.block_offsets.add(off)\n", "            assert isinstance(off, int)\n            if off:\n                self.block_offsets.add(off)\n", ["TABLE-4"]),
    # ------------------------------------------------ NAME
    M("name1-digit-sep", "breaking", SCFG, '            name = str(kind) + "_block_" + str(idx)\n            self.kinds[kind] = idx + 1\n        else:', '            name = str(kind) + str(idx)\n            self.kinds[kind] = idx + 1\n        else:', ["NAME-1"]),
    M("name2-no-increment", "breaking", SCFG, '            name = str(kind) + "_region_" + str(idx)\n            self.kinds[kind] = idx + 1\n        else:', '            name = str(kind) + "_region_" + str(idx)\n        else:', ["NAME-2"]),
    M("name2-restart-at-zero", "breaking", SCFG, '            idx = self.kinds[kind]\n            name = "__scfg_" + str(kind) + "_var_" + str(idx) + "__"', '            idx = 0\n            name = "__scfg_" + str(kind) + "_var_" + str(idx) + "__"', ["NAME-2"]),
    M("name3-literal", "breaking", TR, "                    synth_assign = scfg.name_gen.new_block_name(\n                        block_names.SYNTH_ASSIGN\n                    )\n                    new_blocks.add(synth_assign)\n                    # Setup the table for the variable assignment", '                    synth_assign = "synth_asign_block_0"\n                    new_blocks.add(synth_assign)\n                    # Setup the table for the variable assignment', ["NAME-3"]),
    M("name4-drop-shared-gen", "breaking", TR, "        {name: scfg.graph[name] for name in sorted(region_blocks)},\n        name_gen=scfg.name_gen,\n", "        {name: scfg.graph[name] for name in sorted(region_blocks)},\n", ["NAME-4"]),
    M("name5-unreserved", "breaking", AT, 'loop_continue = f"__scfg_loop_cont_{self.loop_cont_counter}__"\n                rval = [', 'loop_continue = f"loop_cont_{self.loop_cont_counter}"\n                rval = [', ["NAME-5"]),
    M("name5-template", "breaking", AT, '        iter_assign = f"__scfg_iterator_{head_index}__"\n', '        iter_assign = f"iterator_{head_index}"\n', ["NAME-5"]),
    # ------------------------------------------------ TOTAL
    M("total2-gt-two", "breaking", SCFG, "        if len(return_nodes) > 1:\n", "        if len(return_nodes) > 2:\n", ["TOTAL-2"]),
    M("total3-new-assert", "breaking", TR, "    needs_synth_exit = len(exit_blocks) > 1\n", "    needs_synth_exit = len(exit_blocks) > 1\n    assert len(exit_blocks) <= 2\n", ["TOTAL-3"]),
    M("total3-new-raise", "breaking", TR, "    if len(headers) > 1:\n        end = scfg.name_gen.new_block_name(block_names.SYNTH_HEAD)\n", "    if len(headers) > 2:\n        raise NotImplementedError(\"too many headers\")\n    if len(headers) > 1:\n        end = scfg.name_gen.new_block_name(block_names.SYNTH_HEAD)\n", ["TOTAL-3"]),
    M("total4-drop-seen", "breaking", SCFG, "            elif block not in seen:\n                seen.add(block)\n                if block in self.graph:", "            elif block not in seen:\n                if block in self.graph:", ["TOTAL-4"]),
    # ------------------------------------------------ LOWER
    M("lower3-pop-after-else", "breaking", AT, "        # Pop values from loop stack post recursion.\n        loop_indices = self.loop_stack.pop()\n        assert (\n            loop_indices.head == head_index and loop_indices.exit == exit_index\n        )\n\n        # Create else block.\n        self.add_block(else_index)\n\n        # Recurs into the body of the else-branch, again this may modify the\n        # current_block.\n        self.codegen(node.orelse)\n", "        # Create else block.\n        self.add_block(else_index)\n\n        # Recurs into the body of the else-branch, again this may modify the\n        # current_block.\n        self.codegen(node.orelse)\n        loop_indices = self.loop_stack.pop()\n", ["LOWER-3"]),
    M("lower4-prune-expr", "breaking", AT, "        exclude = (ast.Pass, ast.Continue, ast.Break)\n", "        exclude = (ast.Pass, ast.Continue, ast.Break, ast.Expr)\n", ["LOWER-4"]),
    M("lower5-one-walk", "breaking", AT, '            if type(block) is RegionBlock and block.kind == "branch":\n                continue\n', '            if type(block) is RegionBlock and block.kind in ("branch", "tail"):\n                continue\n', ["LOWER-5"]),
    M("lower1-new-arm", "breaking", AT, "        elif isinstance(node, ast.Call):\n            # Handle function calls.", "        elif isinstance(node, ast.Subscript):\n            node.value = self.handle_expression(node.value)\n            node.slice = self.handle_expression(node.slice)\n            return node\n        elif isinstance(node, ast.Call):\n            # Handle function calls.", ["LOWER-1"]),
    # ------------------------------------------------ second batch
    M("ctrl10-keep-old-name", "breaking", BB, "                    if v == target:\n                        new_branch_value_table[k] = new_target\n", "                    if v == target:\n                        new_branch_value_table[k] = target\n", ["CTRL-10"]),
    M("ctrl10-drop-kept", "breaking", BB, "            else:\n                # copy all old values\n                for k, v in old_branch_value_table.items():\n                    if v == target:\n                        new_branch_value_table[k] = v\n", "", ["CTRL-10"]),
    M("ctrl10-diff-reversed", "breaking", BB, "                diff = set(jump_targets).difference(self._jump_targets)\n", "                diff = set(self._jump_targets).difference(jump_targets)\n", ["CTRL-10"]),
    M("ctrl10-table-not-replaced", "breaking", BB, "            _jump_targets=jump_targets,\n            branch_value_table=new_branch_value_table,\n", "            _jump_targets=jump_targets,\n", ["CTRL-10"]),
    M("lower7-return-var", "breaking", AT, '            return [ast.Return(ast.Name("__scfg_return_value__"))]', '            return [ast.Return(ast.Name("__scfg_return_val__"))]', ["LOWER-7"]),
    M("lower8-no-decrement", "breaking", AT, "            self.loop_cont_counter -= 1\n", "", ["LOWER-8"]),
    M("lower8-name-after-pop", "breaking", AT, '            loop_continue = f"__scfg_loop_cont_{self.loop_cont_counter}__"\n            self.loop_cont_counter -= 1\n', '            self.loop_cont_counter -= 1\n            loop_continue = f"__scfg_loop_cont_{self.loop_cont_counter}__"\n', ["LOWER-8"]),
    M("lower9-drop-last", "breaking", AT, "                return block.tree[:-1] + [if_node]\n", "                return block.tree[:-2] + [if_node]\n", ["LOWER-9"]),
    M("lower9-keep-test", "breaking", AT, "                return block.tree[:-1] + [if_node]\n", "                return block.tree + [if_node]\n", ["LOWER-9"]),
    M("total5-swap-args", "breaking", SCFG, "            self.insert_SyntheticTail(solo_tail_name, tails, exits)\n            return solo_tail_name, solo_exit_name\n\n        if len(tails) >= 2 and len(exits) >= 2:", "            self.insert_SyntheticTail(solo_tail_name, exits, tails)\n            return solo_tail_name, solo_exit_name\n\n        if len(tails) >= 2 and len(exits) >= 2:", ["TOTAL-5"]),
    M("total5-exit-from-tails", "breaking", SCFG, "            self.insert_SyntheticExit(solo_exit_name, [solo_tail_name], exits)\n", "            self.insert_SyntheticExit(solo_exit_name, tails, exits)\n", ["TOTAL-5"]),
    M("total5-wrong-return", "breaking", SCFG, "            self.insert_SyntheticExit(solo_exit_name, tails, exits)\n            return solo_tail_name, solo_exit_name\n", "            self.insert_SyntheticExit(solo_exit_name, tails, exits)\n            return solo_tail_name, next(iter(exits))\n", ["TOTAL-5"]),
    M("ctrl11-precedence", "breaking", TR, "                elif jt in headers and (name not in doms[jt] or name == jt):\n", "                elif jt in headers and name not in doms[jt] or name == jt:\n", ["CTRL-11"], "lost parentheses: any self loop is treated as a back edge to a header"),
    M("ok-guard-local", "benign", TR, "                elif jt in headers and (name not in doms[jt] or name == jt):\n", "                elif (jt in headers) and ((name not in doms[jt]) or (name == jt)):\n", []),
    M("store11-dedupe", "breaking", BB, "        return replace(self, _jump_targets=jump_targets)\n", "        return replace(self, _jump_targets=tuple(dict.fromkeys(jump_targets)))\n", ["STORE-11"]),
    M("store11-view-sorted", "breaking", BB, "        return tuple(acc)\n", "        return tuple(sorted(acc))\n", ["STORE-11"]),
    M("store12-raw-loop-detection", "breaking", TR, "        or next(iter(nodes)) in scfg[next(iter(nodes))].jump_targets\n", "        or next(iter(nodes)) in scfg[next(iter(nodes))]._jump_targets\n", ["STORE-12"]),
    M("store13-mutate-tree", "breaking", AT, "                return block.tree[:-1] + [if_node]\n", "                block.tree[-1] = if_node\n                return block.tree\n", ["STORE-13"]),
    M("table5-last-offset-in-arm", "breaking", FI, "            elif is_exiting(inst.opname):\n                flowinfo._add_jump_inst(inst.offset, ())\n\n        flowinfo.last_offset = inst.offset\n", "            elif is_exiting(inst.opname):\n                flowinfo._add_jump_inst(inst.offset, ())\n                flowinfo.last_offset = inst.offset\n\n", ["TABLE-5"]),
    M("lower10-none-value", "breaking", AT, "                        (ast.Constant(None) if val is None else val),\n", "                        val,\n", ["LOWER-10"]),
    M("total6-break-iter", "breaking", SCFG, "                # If this is outside the current graph, just disregard it.\n                # (might be the case if inside a region and the block being\n                # looked at is outside of the region.)\n                continue\n            # yield the name, block combo", "                break\n            # yield the name, block combo", ["TOTAL-6"]),
    M("total6-early-false", "breaking", SCFG, "            elif block not in seen:\n                seen.add(block)\n                if block in self.graph:", "            elif block not in seen:\n                seen.add(block)\n                if block in self.graph and not self.graph[block].jump_targets:\n                    return False\n                if block in self.graph:", ["TOTAL-6"]),
    M("ctrl5-early-exit-wrong-list", "breaking", TR, "        and len(exiting_blocks) == 1\n", "        and len(exit_blocks) == 1\n", ["CTRL-5"]),
    M("ord5-lru-cache", "breaking", SCFG, "    def compute_scc(self) -> List[Set[str]]:", "    @__import__(\"functools\").lru_cache(maxsize=None)\n    def compute_scc(self) -> List[Set[str]]:", ["ORD-5"], "decorator through __import__: still recognised by name"),
    M("ord5-mutable-default", "breaking", AT, "    def to_SCFG(self) -> SCFG:", "    def to_SCFG(self, cache: dict = {}) -> SCFG:", ["ORD-5"]),
    M("disp2-break-after-return", "breaking", AT, "        for node in tree:\n            self.handle_ast_node(node)\n", "        for node in tree:\n            self.handle_ast_node(node)\n            if isinstance(node, ast.Return):\n                break\n", ["DISP-2"]),
    M("disp8-edges-from-view", "breaking", SCFG, "            edges[key] = [i for i in value._jump_targets]\n", "            edges[key] = [i for i in value.jump_targets] + [i for i in value.backedges]\n", ["DISP-8"]),
    M("disp8-yaml-skip-falsy", "breaking", SCFG, '            for k, v in blocks[b].items():\n                ys += indent(', '            for k, v in blocks[b].items():\n                if not v:\n                    continue\n                ys += indent(', ["DISP-8"]),
    M("disp9-drop-nested-parent", "breaking", SCFG, "                for inner in region.subregion.graph.values():\n                    if isinstance(inner, RegionBlock):\n                        object.__setattr__(inner, \"parent_region\", region)\n", "", ["DISP-9"]),
    M("store4-append-any", "breaking", SCFG, "            else:\n                jt.append(new_name)\n", "            if new_name not in jt:\n                jt.append(new_name)\n", ["STORE-4"], "the close-the-graph special case folded into a generic append"),
    M("ord1-keys-view-intersection", "breaking", SCFG, "                return [k for k in out if k in self.graph]\n", "                return list(self.graph.keys() & out)\n", ["ORD-1"]),
    M("ord1-fromkeys-tainted", "breaking", TR, "    for name in sorted(loop):\n", "    for name in dict.fromkeys([*exiting_blocks, *backedge_blocks]):\n", ["ORD-1"]),
    M("iter1-lifo", "breaking", SCFG, "            name = to_visit.popleft()\n", "            name = to_visit.pop()\n", ["ITER-1"], "depth-first: an item can come before all of its predecessors' siblings; order changes"),
    M("iter1-no-seen-add", "breaking", SCFG, "            if name in seen:\n                continue\n            else:\n                seen.add(name)\n", "            if name in seen:\n                continue\n", ["ITER-1"], "join blocks are yielded once per incoming path; loops never end"),
    M("iter1-region-header-targets", "breaking", SCFG, "                to_visit.extend(block.subregion[block.exiting].jump_targets)\n", "                to_visit.extend(block.subregion[block.header].jump_targets)\n", ["ITER-1"]),
    M("iter1-no-descend", "breaking", SCFG, "                yield from block.subregion\n", "                pass\n", ["ITER-1"], "blocks inside regions are never yielded"),
    M("ok-iter-seen-set", "benign", SCFG, "            seen: list[str] = []\n", "            seen: list[str] = list()\n", []),
    M("ok-lower9-star", "benign", AT, "                return block.tree[:-1] + [if_node]\n", "                return [*block.tree[:-1], if_node]\n", []),
    M("ok-join-elif", "benign", SCFG, "            return solo_tail_name, solo_exit_name\n\n        if len(tails) == 1 and len(exits) >= 2:", "            return solo_tail_name, solo_exit_name\n\n        elif len(tails) == 1 and len(exits) >= 2:", [], "if -> elif between the first two cases"),
    M("ok-join-returns-early", "benign", SCFG, "        if len(return_nodes) > 1:\n            return_solo_name = self.name_gen.new_block_name(SYNTH_RETURN)\n            self.insert_SyntheticReturn(return_solo_name, return_nodes, [])\n", "        if len(return_nodes) <= 1:\n            return\n        return_solo_name = self.name_gen.new_block_name(SYNTH_RETURN)\n        self.insert_SyntheticReturn(return_solo_name, return_nodes, [])\n", [], "early return instead of a guarded block"),
    M("ok-iter-deque", "benign", SCFG, "            name = to_visit.pop(0)\n", "            name = to_visit.pop(0)  # FIFO\n", []),
    M("ok-latch-arm-local", "benign", AT, "            assert len(block.jump_targets) == 1\n            assert len(block.backedges) == 1\n", "            assert len(block.jump_targets) == 1 and len(block.backedges) == 1\n", []),
    M("ok-namegen-get", "benign", SCFG, """        if kind in self.kinds.keys():
            idx = self.kinds[kind]
            name = str(kind) + "_block_" + str(idx)
            self.kinds[kind] = idx + 1
        else:
            idx = 0
            name = str(kind) + "_block_" + str(idx)
            self.kinds[kind] = idx + 1
        return name
""", """        idx = self.kinds.get(kind, 0)
        name = f"{kind}_block_{idx}"
        self.kinds[kind] = idx + 1
        return name
""", [], "single-path rewrite of the generator with .get and an f-string"),
    M("ok-type-is-region", "benign", TR, "        if isinstance(entry, RegionBlock):\n            entry = update_exiting(entry, region_header, region_name)\n", "        if type(entry) is RegionBlock:\n            entry = update_exiting(entry, region_header, region_name)\n", []),
    M("ok-edges-list-call", "benign", SCFG, "            edges[key] = [i for i in value._jump_targets]\n", "            edges[key] = list(value._jump_targets)\n", []),
    M("ok-sorted-subgraph-loop", "benign", SCFG, "        for inside in subgraph:\n", "        for inside in sorted(subgraph):\n", []),
    M("ok-dispatch-reorder", "benign", AT, "        elif isinstance(node, ast.If):\n            self.handle_if(node)\n        elif isinstance(node, ast.While):\n            self.handle_while(node)\n", "        elif isinstance(node, ast.While):\n            self.handle_while(node)\n        elif isinstance(node, ast.If):\n            self.handle_if(node)\n", []),
    M("ok-codegen-isinstance-return", "benign", AT, "            elif (\n                block.fallthrough\n                and block.tree\n                and type(block.tree[-1]) is ast.Return\n            ):", "            elif (\n                block.fallthrough\n                and len(block.tree) > 0\n                and type(block.tree[-1]) is ast.Return\n            ):", []),
    M("ok-rename-propagator", "benign", TR, None, None, [], "update_exiting renamed everywhere (computed edit)"),
    M("store6-guard-always-false", "breaking", SCFG, "            if isinstance(block, RegionBlock):\n                for s in successors:\n                    block = update_exiting(block, s, new_name)\n", "            if isinstance(block, RegionBlock):\n                for s in successors:\n                    if s in jt:\n                        block = update_exiting(block, s, new_name)\n", ["STORE-6"], "guard read after the list was rewritten: never true"),
    M("store6-guard-in-conjunct", "breaking", SCFG, "                if isinstance(block, RegionBlock):\n                    block = update_exiting(block, s, synth_assign)\n", "                if isinstance(block, RegionBlock) and s in block.jump_targets:\n                    block = update_exiting(block, s, synth_assign)\n", ["STORE-6"]),
    M("ord1-natural-sort", "breaking", SCFG, "        return sorted(headers), sorted(entries)\n", "        return sorted(headers, key=len), sorted(entries)\n", ["ORD-1"], "a sort key that ties keeps the set order"),
    M("ord5-class-cache", "breaking", RE, "    g: \"Digraph\"\n\n    @abstractmethod\n    def render_basic_block(", "    g: \"Digraph\"\n    _seen: Dict[str, str] = {}\n\n    def remember(self, k: str) -> None:\n        self._seen[k] = k\n\n    @abstractmethod\n    def render_basic_block(", ["ORD-5"]),
    M("table6-last-block-no-targets", "breaking", FI, "            if term_offset not in self.jump_insts:\n                # implicit jump\n                targets = (names[end],)\n", "            if end == end_offset:\n                targets = ()\n            elif term_offset not in self.jump_insts:\n                # implicit jump\n                targets = (names[end],)\n", ["TABLE-6"]),
    M("disp1-duck-typed", "breaking", AT, "        if isinstance(\n            node,\n            (\n                ast.AugAssign,\n                ast.Assign,\n                ast.Expr,\n                ast.Return,\n            ),\n        ):", "        if isinstance(node, ast.stmt) and \"value\" in node._fields:", ["DISP-1"], "also matches AnnAssign / TypeAlias"),
    M("disp4-walk-input", "breaking", AT, "        tree = ast.parse(textwrap.dedent(inspect.getsource(code))).body\n", "        tree = [n for n in ast.walk(ast.parse(textwrap.dedent(inspect.getsource(code)))) if isinstance(n, ast.FunctionDef)]\n", ["DISP-4"]),
    M("disp9-parent-from-stale", "breaking", SCFG, "                        object.__setattr__(inner, \"parent_region\", region)\n", "                        object.__setattr__(inner, \"parent_region\", region.subregion.region)\n", ["DISP-9"]),
    M("lower1-keywords-first", "breaking", AT, "            node.args = [self.handle_expression(a) for a in node.args]\n            return node\n", "            for keyword in node.keywords:\n                keyword.value = self.handle_expression(keyword.value)\n            node.args = [self.handle_expression(a) for a in node.args]\n            return node\n", ["LOWER-1"]),
    M("store11-declare-strips-target", "breaking", BB, "            return replace(self, backedges=(target,))\n", "            return replace(self, backedges=(target,), _jump_targets=self.jump_targets)\n", ["STORE-11"]),
    M("store8-replace-header-copy", "breaking", BB, "        object.__setattr__(self, \"header\", new_header)\n", "        return replace(self, header=new_header)  # type: ignore\n", ["STORE-8"]),
    M("total7-recursive-dfs", "breaking", SCFG, "        seen = set()\n        to_vist = list(self.graph[begin].jump_targets)\n        while True:", "        def visit(b: str, seen_: set) -> bool:  # type: ignore\n            if b == end:\n                return True\n            if b in seen_ or b not in self.graph:\n                return False\n            seen_.add(b)\n            return any(visit(t, seen_) for t in self.graph[b].jump_targets)\n\n        if any(visit(t, set()) for t in self.graph[begin].jump_targets):\n            return True\n        return False\n        seen = set()\n        to_vist = list(self.graph[begin].jump_targets)\n        while True:", ["TOTAL-7"]),
    M("lower11-lookup-cache", "breaking", AT, "    def lookup(self, item: Any) -> Any:\n        subregion_scfg = self.region_stack[-1].subregion\n", "    def lookup(self, item: Any) -> Any:\n        if not hasattr(self, \"resolved\"):\n            self.resolved = {}\n        if item in self.resolved:\n            return self.resolved[item]\n        subregion_scfg = self.region_stack[-1].subregion\n        self.resolved[item] = None\n", ["LOWER-11"]),
    M("iter1-gate-at-enqueue", "breaking", SCFG, "            if name in seen:\n                continue\n            else:\n                seen.append(name)\n", "            seen.append(name)\n", ["ITER-1"]),
    M("name4-no-variable-seeding", "breaking", SCFG, '            names.append(block.get("variable", ""))\n', "", ["NAME-4"], "control variables of branching blocks are not seen when seeding"),
    M("name4-regex-args-swapped", "breaking", SCFG, '                r"__scfg_(.+)_var_(\\d+)__|(.+)_(?:block|region)_(\\d+)",\n                str(name),\n', '                str(name),\n                r"__scfg_(.+)_var_(\\d+)__|(.+)_(?:block|region)_(\\d+)",\n', ["NAME-4"]),
    M("ok-seed-plus-two", "benign", SCFG, "                    name_gen.kinds.get(kind, 0), index + 1\n", "                    name_gen.kinds.get(kind, 0), index + 2\n", [], "a gap in the numbering keeps names fresh"),
    M("disp8-no-descend", "breaking", SCFG, "                q.extend(value.subregion.graph.items())\n", "", ["DISP-8"]),
    M("disp8-contains-unsorted", "breaking", SCFG, '                blocks[key]["contains"] = sorted(\n                    [idx.name for idx in value.subregion.graph.values()]\n                )\n', '                blocks[key]["contains"] = list(\n                    [idx.name for idx in value.subregion.graph.values()]\n                )\n', ["DISP-8"]),
    M("total8-inverted-narrowing", "breaking", SCFG, "                assert value.subregion is not None\n                assert value.parent_region is not None\n                q.extend(", "                assert value.subregion is None\n                assert value.parent_region is not None\n                q.extend(", ["TOTAL-8"]),
    M("query1-raw-targets", "breaking", SCFG, "            block = self.graph[name]\n            for jt in block.jump_targets:\n                heads.discard(jt)\n", "            block = self.graph[name]\n            for jt in block._jump_targets:\n                heads.discard(jt)\n", ["QUERY-1", "STORE-12"]),
    M("query2-drop-returns", "breaking", SCFG, "            # any returns\n            if self.graph[inside].is_exiting:\n                exiting.add(inside)\n", "", ["QUERY-2"]),
    M("query2-swap-results", "breaking", SCFG, "        return sorted(exiting), sorted(exits)\n", "        return sorted(exits), sorted(exiting)\n", ["QUERY-2"]),
    M("query3-seed-begin", "breaking", SCFG, "        to_vist = list(self.graph[begin].jump_targets)\n", "        to_vist = [begin]\n", ["QUERY-3"]),
    M("query3-raw-expand", "breaking", SCFG, "                    to_vist.extend(self.graph[block].jump_targets)\n", "                    to_vist.extend(self.graph[block]._jump_targets)\n", ["QUERY-3", "STORE-12"]),
    M("store8-reparent-negated", "breaking", TR, "    for k, v in region.subregion.graph.items():\n        if isinstance(v, RegionBlock):\n", "    for k, v in region.subregion.graph.items():\n        if not isinstance(v, RegionBlock):\n", ["STORE-8"]),
    M("disp9-drop-self-parent", "breaking", SCFG, '                object.__setattr__(region, "parent_region", scfg.region)\n', "", ["DISP-9"]),
    M("ok-namegen-plus-two", "benign", SCFG, '            name = "__scfg_" + str(kind) + "_var_" + str(idx) + "__"\n            self.kinds[kind] = idx + 1\n        else:', '            name = "__scfg_" + str(kind) + "_var_" + str(idx) + "__"\n            self.kinds[kind] = idx + 2\n        else:', []),
    M("ok-head-set-not-recomputed", "benign", TR, "    # Recompute regions.\n    head_region_blocks = find_head_blocks(scfg, begin)\n    branch_regions = find_branch_regions(scfg, begin, end)\n    tail_region_blocks = find_tail_blocks(\n        scfg, begin, head_region_blocks, branch_regions\n    )\n\n    # extract subregions", "    # Recompute regions.\n    branch_regions = find_branch_regions(scfg, begin, end)\n    tail_region_blocks = find_tail_blocks(\n        scfg, begin, head_region_blocks, branch_regions\n    )\n\n    # extract subregions", [], "the head chain is not changed by the insertions"),
    M("query2-exit-must-be-in-graph", "breaking", SCFG, "                if jt not in subgraph:\n                    exiting.add(inside)\n                    exits.add(jt)\n", "                if jt not in subgraph:\n                    exiting.add(inside)\n                    if jt in self.graph:\n                        exits.add(jt)\n", ["QUERY-2"]),
    M("query3-seen-begin", "breaking", SCFG, "        seen = set()\n        to_vist = list(self.graph[begin].jump_targets)\n", "        seen = {begin}\n        to_vist = list(self.graph[begin].jump_targets)\n", ["QUERY-3"]),
    M("disp9-nested-negated", "breaking", SCFG, "                    if isinstance(inner, RegionBlock):\n", "                    if not isinstance(inner, RegionBlock):\n", ["DISP-9"]),
    M("name4-group-and", "breaking", SCFG, "                kind = match.group(1) or match.group(3)\n", "                kind = match.group(1) and match.group(3)\n", ["NAME-4"]),
    M("name4-wrong-group", "breaking", SCFG, "                kind = match.group(1) or match.group(3)\n", "                kind = match.group(2) or match.group(3)\n", ["NAME-4"]),
    M("disp10-drop-digraph", "breaking", RE, "        from graphviz import Digraph\n\n        self.g = Digraph()\n\n    def render_region_block(\n        self, digraph: \"Digraph\", name: str, regionblock: RegionBlock\n    ) -> None:\n        # render subgraph\n        with digraph.subgraph(name=f\"cluster_{name}\") as subg:\n            color = \"#648FFF\"", "        from graphviz import Digraph  # noqa\n\n    def render_region_block(\n        self, digraph: \"Digraph\", name: str, regionblock: RegionBlock\n    ) -> None:\n        # render subgraph\n        with digraph.subgraph(name=f\"cluster_{name}\") as subg:\n            color = \"#648FFF\"", ["DISP-10"]),
    M("disp10-arm-no-call", "breaking", RE, "        elif type(block) == PythonBytecodeBlock:  # noqa: E721\n            self.render_basic_block(digraph, name, block)\n", "        elif type(block) == PythonBytecodeBlock:  # noqa: E721\n            pass\n", ["DISP-10"]),
    M("disp10-arm-arg-swap", "breaking", RE, "            self.render_python_ast_block(digraph, name, block)  # type: ignore\n", "            self.render_python_ast_block(name, digraph, block)  # type: ignore\n", ["DISP-10"]),
    M("disp10-no-node", "breaking", RE, "            raise Exception(\"Unknown name type: \" + name)\n        digraph.node(str(name), shape=\"rect\", label=body)\n\n    def render_byteflow", "            raise Exception(\"Unknown name type: \" + name)\n\n    def render_byteflow", ["DISP-10"]),
    M("disp10-no-render-loop", "breaking", RE, "        for name, block in byteflow.scfg.graph.items():\n            self.render_block(self.g, name, block)\n", "        for name, block in byteflow.scfg.graph.items():\n            pass\n", ["DISP-10"]),
    M("disp10-cluster-not-recursive", "breaking", RE, "            assert regionblock.subregion is not None\n            for name, block in regionblock.subregion.graph.items():\n                self.render_block(subg, name, block)\n\n    def render_basic_block(\n        self, digraph: \"Digraph\", name: str, block: BasicBlock\n    ) -> None:\n        if name.startswith", "            assert regionblock.subregion is not None\n            for name, block in regionblock.subregion.graph.items():\n                self.render_block(digraph, name, block)\n\n    def render_basic_block(\n        self, digraph: \"Digraph\", name: str, block: BasicBlock\n    ) -> None:\n        if name.startswith", ["DISP-10"]),
    M("total9-negated-name-test", "breaking", RE, "        if isinstance(name, str):\n            body = name + r\"\\l\"\n            body += r\"\\l\".join(\n                (f\"{k} = {v}\" for k, v in block.variable_assignment.items())\n            )\n        else:\n            raise Exception(\"Unknown name type: \" + name)\n        digraph.node(str(name), shape=\"rect\", label=body)\n\n    def render_branching_block(\n        self, digraph: \"Digraph\", name: str, block: SyntheticBranch\n    ) -> None:\n        if isinstance(name, str):\n            body = name + r\"\\l\"\n            body += rf\"variable: {block.variable}\\l\"", "        if not isinstance(name, str):\n            body = name + r\"\\l\"\n            body += r\"\\l\".join(\n                (f\"{k} = {v}\" for k, v in block.variable_assignment.items())\n            )\n        else:\n            raise Exception(\"Unknown name type: \" + name)\n        digraph.node(str(name), shape=\"rect\", label=body)\n\n    def render_branching_block(\n        self, digraph: \"Digraph\", name: str, block: SyntheticBranch\n    ) -> None:\n        if isinstance(name, str):\n            body = name + r\"\\l\"\n            body += rf\"variable: {block.variable}\\l\"", ["TOTAL-9"]),
    M("total9-inverted-assert", "breaking", RE, "            subg.attr(color=color, label=regionblock.name)\n            assert regionblock.subregion is not None\n            for name, block in regionblock.subregion.graph.items():\n                self.render_block(subg, name, block)\n\n    def render_basic_block(\n        self, digraph: \"Digraph\", name: str, block: BasicBlock\n    ) -> None:\n        if name.startswith", "            subg.attr(color=color, label=regionblock.name)\n            assert regionblock.subregion is None\n            for name, block in regionblock.subregion.graph.items():\n                self.render_block(subg, name, block)\n\n    def render_basic_block(\n        self, digraph: \"Digraph\", name: str, block: BasicBlock\n    ) -> None:\n        if name.startswith", ["TOTAL-9", "TOTAL-6"]),
    M("use1-no-default-colour", "breaking", RE, "        from graphviz import Digraph\n\n        self.g = Digraph()\n\n    def render_region_block(\n        self, digraph: \"Digraph\", name: str, regionblock: RegionBlock\n    ) -> None:\n        # render subgraph\n        with digraph.subgraph(name=f\"cluster_{name}\") as subg:\n            color = \"#648FFF\"\n            if regionblock.kind == \"branch\":\n                color = \"#FFB000\"\n            if regionblock.kind == \"tail\":\n                color = \"#785EF0\"", "        from graphviz import Digraph\n\n        self.g = Digraph()\n\n    def render_region_block(\n        self, digraph: \"Digraph\", name: str, regionblock: RegionBlock\n    ) -> None:\n        # render subgraph\n        with digraph.subgraph(name=f\"cluster_{name}\") as subg:\n            if regionblock.kind == \"branch\":\n                color = \"#FFB000\"\n            if regionblock.kind == \"tail\":\n                color = \"#785EF0\"", ["USE-1"]),
    M("attr1-negated-bytecode-test", "breaking", RE, "        if name.startswith(\"python_bytecode\") and isinstance(\n            block, PythonBytecodeBlock\n        ):\n            instlist = block.get_instructions(self.bcmap)\n            body = name + r\"\\l\"\n            body += r\"\\l\".join(\n                [f\"{inst.offset:3}: {inst.opname}\" for inst in instlist] + [\"\"]\n            )\n        else:\n            body = name + r\"\\l\"\n\n        digraph.node(str(name), shape=\"rect\", label=body)\n\n    def render_control_variable_block(\n        self, digraph: \"Digraph\", name: str, block: SyntheticAssignment\n    ) -> None:\n        if isinstance(name, str):\n            body = name + r\"\\l\"\n            body += r\"\\l\".join(\n                (f\"{k} = {v}\" for k, v in block.variable_assignment.items())\n            )\n        else:\n            raise Exception(\"Unknown name type: \" + name)\n        digraph.node(str(name), shape=\"rect\", label=body)\n\n    def render_branching_block(\n        self, digraph: \"Digraph\", name: str, block: SyntheticBranch\n    ) -> None:\n        if isinstance(name, str):\n            body = name + r\"\\l\"\n            body += rf\"variable: {block.variable}\\l\"", "        if not (name.startswith(\"python_bytecode\") and isinstance(\n            block, PythonBytecodeBlock\n        )):\n            instlist = block.get_instructions(self.bcmap)\n            body = name + r\"\\l\"\n            body += r\"\\l\".join(\n                [f\"{inst.offset:3}: {inst.opname}\" for inst in instlist] + [\"\"]\n            )\n        else:\n            body = name + r\"\\l\"\n\n        digraph.node(str(name), shape=\"rect\", label=body)\n\n    def render_control_variable_block(\n        self, digraph: \"Digraph\", name: str, block: SyntheticAssignment\n    ) -> None:\n        if isinstance(name, str):\n            body = name + r\"\\l\"\n            body += r\"\\l\".join(\n                (f\"{k} = {v}\" for k, v in block.variable_assignment.items())\n            )\n        else:\n            raise Exception(\"Unknown name type: \" + name)\n        digraph.node(str(name), shape=\"rect\", label=body)\n\n    def render_branching_block(\n        self, digraph: \"Digraph\", name: str, block: SyntheticBranch\n    ) -> None:\n        if isinstance(name, str):\n            body = name + r\"\\l\"\n            body += rf\"variable: {block.variable}\\l\"", ["ATTR-1"]),
    M("ok-render-helper-local", "benign", RE, "        for name, block in byteflow.scfg.graph.items():\n            self.render_block(self.g, name, block)\n", "        graph = byteflow.scfg.graph\n        for name, block in graph.items():\n            self.render_block(self.g, name, block)\n", []),
    M("ok-render-colour-table", "benign", RE, "            color = \"#648FFF\"\n            if regionblock.kind == \"branch\":\n                color = \"#FFB000\"\n            if regionblock.kind == \"tail\":\n                color = \"#785EF0\"\n            if regionblock.kind == \"head\":\n                color = \"#DC267F\"\n            subg.attr(color=color, label=regionblock.name)\n            assert regionblock.subregion is not None\n            for name, block in regionblock.subregion.graph.items():\n                self.render_block(subg, name, block)\n\n    def render_basic_block(\n        self, digraph: \"Digraph\", name: str, block: BasicBlock\n    ) -> None:\n        if name.startswith", "            color = {\"branch\": \"#FFB000\", \"tail\": \"#785EF0\", \"head\": \"#DC267F\"}.get(regionblock.kind, \"#648FFF\")\n            subg.attr(color=color, label=regionblock.name)\n            assert regionblock.subregion is not None\n            for name, block in regionblock.subregion.graph.items():\n                self.render_block(subg, name, block)\n\n    def render_basic_block(\n        self, digraph: \"Digraph\", name: str, block: BasicBlock\n    ) -> None:\n        if name.startswith", []),
    M("lower12-no-advance", "breaking", AT, "            false_block_index = self.block_index\n            merge_block_index = self.block_index + 1\n            self.block_index += 2\n", "            false_block_index = self.block_index\n            merge_block_index = self.block_index + 1\n", ["LOWER-12"]),
    M("lower12-short-advance", "breaking", AT, "        enif_index = self.block_index + 2\n        self.block_index += 3\n", "        enif_index = self.block_index + 2\n        self.block_index += 2\n", ["LOWER-12"]),
    M("lower12-shared-index", "breaking", AT, "        then_index = self.block_index\n        else_index = self.block_index + 1\n", "        then_index = self.block_index\n        else_index = self.block_index\n", ["LOWER-12"]),
    M("ok-lower12-spare-index", "benign", AT, "        enif_index = self.block_index + 2\n        self.block_index += 3\n", "        enif_index = self.block_index + 2\n        self.block_index += 4\n", []),
    M("attr1-isinstance-swapped", "breaking", RE, "            raise Exception(\"Unknown name type: \" + name)\n        digraph.node(str(name), shape=\"rect\", label=body)\n\n    def render_branching_block(\n        self, digraph: \"Digraph\", name: str, block: SyntheticBranch\n    ) -> None:\n        if isinstance(name, str):\n            body = name + r\"\\l\"\n            body += rf\"variable: {block.variable}\\l\"", "            raise Exception(\"Unknown name type: \" + name)\n        digraph.node(str(name), shape=\"rect\", label=body)\n\n    def render_branching_block(\n        self, digraph: \"Digraph\", name: str, block: SyntheticBranch\n    ) -> None:\n        if isinstance(str, name):\n            body = name + r\"\\l\"\n            body += rf\"variable: {block.variable}\\l\"", ["ATTR-1"]),
    M("ok-scc-pop-cond", "benign", "networkx_vendored/scc.py", "scc_queue and preorder[scc_queue[-1]] > preorder[v]", "scc_queue and preorder[scc_queue[-1]] >= preorder[v]", [], "v is not on scc_queue when the loop runs: the comparison is never an equality"),
    M("query4-single-other", "breaking", TR, "        for jt in jump_targets:\n            if jt != bra_start and scfg.is_reachable_dfs(jt, bra_start):\n                # placeholder for empty branch region\n                branch_regions.append(None)\n                break\n        else:\n", "        other = next(jt for jt in jump_targets if jt != bra_start)\n        if scfg.is_reachable_dfs(other, bra_start):\n            # placeholder for empty branch region\n            branch_regions.append(None)\n        else:\n", ["QUERY-4"]),
    M("query4-no-self-exclusion", "breaking", TR, "            if jt != bra_start and scfg.is_reachable_dfs(jt, bra_start):\n", "            if scfg.is_reachable_dfs(jt, bra_start):\n", ["QUERY-4"]),
    M("query4-no-break", "breaking", TR, "                branch_regions.append(None)\n                break\n", "                branch_regions.append(None)\n", ["QUERY-4"]),
    M("query4-membership-or", "breaking", TR, "                if bra_start in kdom and end not in kdom:\n", "                if bra_start in kdom or end not in kdom:\n", ["QUERY-4"]),
    M("ok-query4-any", "benign", TR, "        for jt in jump_targets:\n            if jt != bra_start and scfg.is_reachable_dfs(jt, bra_start):\n                # placeholder for empty branch region\n                branch_regions.append(None)\n                break\n        else:\n", "        if any(jt != bra_start and scfg.is_reachable_dfs(jt, bra_start) for jt in jump_targets):\n            # placeholder for empty branch region\n            branch_regions.append(None)\n        else:\n", []),
    M("query5-self-loop-seed", "breaking", TR, "        targets = set(v.jump_targets) & set(scfg.graph)\n", "        targets = set(v.jump_targets) & set(scfg.graph) - {k}\n", ["QUERY-5"]),
    M("query5-raw-seed", "breaking", TR, "        targets = set(v.jump_targets) & set(scfg.graph)\n", "        targets = set(v._jump_targets) & set(scfg.graph)\n", ["QUERY-5", "STORE-12"]),
    M("query5-outside-seed", "breaking", TR, "        targets = set(v.jump_targets) & set(scfg.graph)\n", "        targets = set(v.jump_targets)\n", ["QUERY-5"]),
    M("ok-query5-comprehension", "benign", TR, "        targets = set(v.jump_targets) & set(scfg.graph)\n", "        targets = {t for t in v.jump_targets if t in scfg.graph}\n", []),
    M("ok-query5-intersection", "benign", TR, "        targets = set(v.jump_targets) & set(scfg.graph)\n", "        targets = set(scfg.graph.keys()).intersection(v.jump_targets)\n", []),
    M("query5-post-forward", "breaking", TR, "                preds_table[src].add(dst)\n                succs_table[dst].add(src)\n", "                preds_table[dst].add(src)\n                succs_table[src].add(dst)\n", ["QUERY-5"]),
    M("query5-not-inverse", "breaking", TR, "                preds_table[src].add(dst)\n                succs_table[dst].add(src)\n", "                preds_table[src].add(dst)\n                succs_table[src].add(dst)\n", ["QUERY-5"]),
    M("query5-seeds-early", "breaking", TR, "    node: BasicBlock\n    for src, node in scfg.graph.items():\n        for dst in node.jump_targets:\n            # check dst is in subgraph\n            if dst in scfg.graph:\n                preds_table[dst].add(src)\n                succs_table[src].add(dst)\n\n    for k in scfg.graph:\n        if not preds_table[k]:\n            entries.add(k)\n", "    for k in scfg.graph:\n        if not preds_table[k]:\n            entries.add(k)\n    node: BasicBlock\n    for src, node in scfg.graph.items():\n        for dst in node.jump_targets:\n            # check dst is in subgraph\n            if dst in scfg.graph:\n                preds_table[dst].add(src)\n                succs_table[src].add(dst)\n\n", ["QUERY-5"]),
    M("query6-no-break", "breaking", "networkx_vendored/scc.py", "                        done = False\n                        break\n", "                        done = False\n", ["QUERY-6"]),
    M("query6-lowlink-direction", "breaking", "networkx_vendored/scc.py", "                            if preorder[w] > preorder[v]:\n", "                            if preorder[w] < preorder[v]:\n", ["QUERY-6"]),
    M("query6-found-guard", "breaking", "networkx_vendored/scc.py", "                        if w not in scc_found:\n", "                        if w not in preorder:\n", ["QUERY-6"]),
    M("query6-root-not-recorded", "breaking", "networkx_vendored/scc.py", "                        scc_found.update(scc)\n", "", ["QUERY-6"]),
    M("query6-counter-reset", "breaking", "networkx_vendored/scc.py", "            queue = [source]\n", "            queue = [source]\n            i = 0\n", ["QUERY-6"]),
    M("query6-adapter-unfiltered", "breaking", SCFG, "                return [k for k in out if k in self.graph]\n", "                return [k for k in out]\n", ["QUERY-6"]),
    M("ok-query6-augassign", "benign", "networkx_vendored/scc.py", "                    i = i + 1\n", "                    i += 1\n", []),
    M("ok-query6-min-args", "benign", "networkx_vendored/scc.py", "lowlink[v] = min([lowlink[v], lowlink[w]])", "lowlink[v] = min(lowlink[v], lowlink[w])", []),
    M("query7-union", "breaking", TR, "                set.intersection, [doms[p] for p in preds]  # type: ignore\n", "                set.union, [doms[p] for p in preds]  # type: ignore\n", ["QUERY-7"]),
    M("query7-no-requeue", "breaking", TR, "            doms[n] = new_doms\n            todo.extend(succs_table[n])\n", "            doms[n] = new_doms\n", ["QUERY-7"]),
    M("query7-requeue-preds", "breaking", TR, "            doms[n] = new_doms\n            todo.extend(succs_table[n])\n", "            doms[n] = new_doms\n            todo.extend(preds_table[n])\n", ["QUERY-7"]),
    M("query7-bottom-start", "breaking", TR, "            doms[n] = set(nodes)\n            todo.append(n)\n", "            doms[n] = {n}\n            todo.append(n)\n", ["QUERY-7"]),
    M("query7-non-strict", "breaking", TR, "    idoms = {k: v - {k} for k, v in doms.items()}\n", "    idoms = {k: set(v) for k, v in doms.items()}\n", ["QUERY-7"]),
    M("ok-query7-fifo", "benign", TR, "    while todo:\n        n = todo.pop()\n        if n in entries:\n", "    while todo:\n        n = todo.pop(0)\n        if n in entries:\n", []),
    M("ok-use1-loop-variable-after-loop", "benign", RE, "        for name, block in byteflow.scfg.graph.items():\n            self.render_block(self.g, name, block)\n        self.render_edges(byteflow.scfg)\n", "        for name, block in byteflow.scfg.graph.items():\n            self.render_block(self.g, name, block)\n            last = name\n        logging.getLogger(__name__).debug(\"last block %s\", last)\n        self.render_edges(byteflow.scfg)\n", [], "a zero-trip loop is not reported by USE-1"),
    # ------------------------------------------------ benign
    M("ok-rename-locals", "benign", TR, None, None, [], "rename locals of loop_restructure_helper (computed edit)"),
    M("ok-sorted-key", "benign", TR, "    for name in sorted(loop):\n", "    for name in sorted(loop, key=str):\n", []),
    M("ok-elif-nested", "benign", AT, "        elif isinstance(node, ast.For):\n            self.handle_for(node)\n        else:\n            raise NotImplementedError(f\"Node type {node} not implemented\")", "        else:\n            if isinstance(node, ast.For):\n                self.handle_for(node)\n            else:\n                raise NotImplementedError(f\"Node type {node} not implemented\")", []),
    M("ok-logging", "benign", TR, "    headers, entries = scfg.find_headers_and_entries(loop)\n    exiting_blocks, exit_blocks = scfg.find_exiting_and_exits(loop)\n    # assert len(entries) == 1", "    headers, entries = scfg.find_headers_and_entries(loop)\n    _logger.debug(\"headers %s\", headers)\n    exiting_blocks, exit_blocks = scfg.find_exiting_and_exits(loop)\n    _logger.debug(\"exits %s\", exit_blocks)\n    # assert len(entries) == 1", []),
    M("ok-swap-independent", "benign", TR, "    region_header = next(iter(headers))\n    region_exiting = next(iter(exiting_blocks))\n", "    region_exiting = next(iter(exiting_blocks))\n    region_header = next(iter(headers))\n", []),
    M("ok-latch-order", "benign", TR, "        _jump_targets=(\n            synth_exit if needs_synth_exit else next(iter(exit_blocks)),\n            loop_head,\n        ),", "        _jump_targets=(\n            loop_head,\n            synth_exit if needs_synth_exit else next(iter(exit_blocks)),\n        ),", [], "a new synthetic block's successor order is free"),
    M("ok-len-rewrite", "benign", SCFG, "        if len(tails) == 1 and len(exits) == 1:\n            # no-op", "        if len(tails) < 2 and len(tails) > 0 and len(exits) == 1:\n            # no-op", []),
    M("ok-comprehension-rename", "benign", TR, "        jt = list(entry._jump_targets)\n        for idx, s in enumerate(jt):\n            if s == region_header:\n                jt[idx] = region_name\n        entry = entry.replace_jump_targets(jump_targets=tuple(jt))\n", "        jt = list(entry._jump_targets)\n        for pos, tgt in enumerate(jt):\n            if tgt == region_header:\n                jt[pos] = region_name\n        entry = entry.replace_jump_targets(jump_targets=tuple(jt))\n", []),
    M("ok-loop-to-comprehension", "benign", TR, "        jt = list(entry._jump_targets)\n        for idx, s in enumerate(jt):\n            if s == region_header:\n                jt[idx] = region_name\n        entry = entry.replace_jump_targets(jump_targets=tuple(jt))\n", "        jt = [region_name if s == region_header else s for s in entry._jump_targets]\n        entry = entry.replace_jump_targets(jump_targets=tuple(jt))\n", [], "index-store loop rewritten as an element-wise comprehension"),
    M("ok-headers-index", "benign", TR, "        loop_head = next(iter(headers))\n", "        loop_head = headers[0]\n", [], "headers is a sorted list"),
    M("ok-sorted-local", "benign", TR, "    for name in sorted(loop):\n", "    ordered_members = sorted(loop)\n    for name in ordered_members:\n", []),
    M("ok-return-locals", "benign", SCFG, "        return sorted(headers), sorted(entries)\n", "        ordered_headers = sorted(headers)\n        ordered_entries = sorted(entries)\n        return ordered_headers, ordered_entries\n", []),
    M("ok-worklist-deque", "benign", SCFG, "        while q:\n            key, value = q.pop()\n", "        while q:\n            key, value = q.pop(0)\n", [], "FIFO instead of LIFO work-list in to_dict"),
    M("ok-isinstance-tuple", "benign", TR, "        if isinstance(entry, RegionBlock):\n            entry = update_exiting(entry, region_header, region_name)\n", "        if isinstance(entry, (RegionBlock,)):\n            entry = update_exiting(entry, region_header, region_name)\n", []),
    M("ok-explicit-else", "benign", SCFG, "        if len(return_nodes) > 1:\n", "        if len(return_nodes) >= 2:\n", []),
    M("ok-assert-message", "benign", TR, "    assert len(headers) == 1\n    assert len(exiting_blocks) == 1\n", "    assert len(headers) == 1, headers\n    assert len(exiting_blocks) == 1, exiting_blocks\n", []),
    M("ok-graph-subscript", "benign", TR, "        _jump_targets=scfg[region_exiting].jump_targets,\n", "        _jump_targets=scfg.graph[region_exiting].jump_targets,\n", []),
    M("ok-add-debug-render", "benign", RE, "        if type(block) == BasicBlock:  # noqa: E721\n            self.render_basic_block(digraph, name, block)\n", "        logging.getLogger(__name__).debug(\"render %s\", name)\n        if type(block) == BasicBlock:  # noqa: E721\n            self.render_basic_block(digraph, name, block)\n", []),
    M("ok-docstrings", "benign", SCFG, "        # TODO: needs a diagram and documentaion\n        # initialize new block\n", "        # initialise the new block (documentation pending)\n", []),
    M("ok-extra-sorted", "benign", SCFG, "        heads = set(self.graph.keys())\n", "        heads = set(sorted(self.graph.keys()))\n", []),
    M("ok-dispatch-type-in", "benign", AT, "        elif isinstance(node, ast.If):\n            self.handle_if(node)", "        elif type(node) in (ast.If,):\n            self.handle_if(node)", []),
    M("ok-refuse-more", "benign", AT, "                ast.Continue,\n                ast.Pass,\n            ),\n        ):\n            self.current_block.instructions.append(node)", "                ast.Continue,\n            ),\n        ):\n            self.current_block.instructions.append(node)", [], "refusing 'pass' is allowed by C11 / C07"),
    M("ok-helper-var", "benign", SCFG, "            block = block.replace_jump_targets(jump_targets=tuple(jt))\n", "            new_targets = tuple(jt)\n            block = block.replace_jump_targets(jump_targets=new_targets)\n", []),
    M("ok-yaml-repr-call", "benign", SCFG, 'ys += indent(f"{k}: {v!r}\\n", " " * 12)', 'ys += indent(f"{k}: {repr(v)}\\n", " " * 12)', []),
    M("ok-more-opcodes", "benign", UT, '_terminating = {"RETURN_VALUE", "RETURN_CONST"}', '_terminating = {"RETURN_VALUE", "RETURN_CONST", "RETURN_FUTURE_OPCODE"}', [], "an opcode name unknown to this interpreter"),
    M("ok-while-else-comment", "benign", AT, "        # Push to loop stack for recursion.\n        self.loop_stack.append(LoopIndices(head_index, exit_index))\n\n        # Recurs into the body of the while statement.", "        # Push to loop stack for recursion.\n        indices = LoopIndices(head_index, exit_index)\n        self.loop_stack.append(indices)\n\n        # Recurs into the body of the while statement.", []),
]
