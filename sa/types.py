"""Flow-insensitive local type inference from annotations and constructors.

Types are plain tuples:
  ('any',) ('none',) ('str',) ('int',) ('bool',) ('float',)
  ('set', T) ('list', T) ('iter', T) ('dict', K, V) ('tuple', (T1, ...)) ('tuplev', T)
  ('cls', name) instance of a library class; ('ext', dotted) instance of an external class
  ('type', name) a library class object; ('func', FunctionInfo); ('bound', recvT, FunctionInfo)
  ('union', frozenset(types)); ('module', dotted); ('iterof', T) result of iter(x)
"""
from __future__ import annotations

import ast
from typing import Dict, Optional

from . import astutil as A
from .model import ClassInfo, FunctionInfo, ModuleInfo, Program

ANY = ("any",)
NONE = ("none",)
STR = ("str",)
INT = ("int",)
BOOL = ("bool",)
FLOAT = ("float",)


def union(*ts):
    flat = set()
    for t in ts:
        if t is None:
            continue
        if t[0] == "union":
            flat |= set(t[1])
        else:
            flat.add(t)
    if not flat:
        return ANY
    if ANY in flat:
        return ANY
    if len(flat) == 1:
        return next(iter(flat))
    return ("union", frozenset(flat))


def members(t):
    return set(t[1]) if t[0] == "union" else {t}


def strip_none(t):
    ms = {m for m in members(t) if m != NONE}
    return union(*ms) if ms else NONE


def is_set(t) -> bool:
    ms = members(strip_none(t))
    return bool(ms) and all(m[0] == "set" for m in ms)


def may_be_set(t) -> bool:
    return any(m[0] == "set" for m in members(t))


def elem(t):
    """element type when iterating a value of type t"""
    outs = []
    for m in members(strip_none(t)):
        k = m[0]
        if k in ("set", "list", "iter", "tuplev", "iterof"):
            outs.append(m[1] if k != "iterof" else elem(m[1]))
        elif k == "tuple":
            outs.append(union(*m[1]) if m[1] else ANY)
        elif k == "dict":
            outs.append(m[1])
        elif k == "str":
            outs.append(STR)
        else:
            outs.append(ANY)
    return union(*outs) if outs else ANY


def show(t) -> str:
    k = t[0]
    if k in ("any", "none", "str", "int", "bool", "float"):
        return k
    if k in ("set", "list", "iter", "tuplev", "iterof"):
        return f"{k}[{show(t[1])}]"
    if k == "dict":
        return f"dict[{show(t[1])},{show(t[2])}]"
    if k == "tuple":
        return "tuple[" + ",".join(show(x) for x in t[1]) + "]"
    if k in ("cls", "ext", "type", "module"):
        return f"{k}:{t[1]}"
    if k == "func":
        return f"func:{t[1].qualname}"
    if k == "bound":
        return f"bound:{t[2].qualname}"
    if k == "union":
        return "|".join(sorted(show(x) for x in t[1]))
    return str(t)


_SEQ = {"List", "list", "Sequence", "MutableSequence", "deque", "Deque"}
_ITER = {"Iterable", "Iterator", "Generator", "Collection", "KeysView", "ValuesView", "ItemsView"}
_SET = {"Set", "set", "FrozenSet", "frozenset", "AbstractSet", "MutableSet"}
_DICT = {"Dict", "dict", "Mapping", "MutableMapping", "DefaultDict", "defaultdict", "OrderedDict"}


class Typer:
    def __init__(self, prog: Program) -> None:
        self.prog = prog
        self._env_cache: Dict[int, Dict[str, tuple]] = {}
        self._inst_attr_cache: Dict[str, Dict[str, tuple]] = {}

    # ---------------------------------------------------------- annotations
    def ann(self, m: ModuleInfo, node: Optional[ast.AST]) -> tuple:
        if node is None:
            return ANY
        if isinstance(node, ast.Constant):
            if node.value is None:
                return NONE
            if isinstance(node.value, str):
                try:
                    return self.ann(m, ast.parse(node.value, mode="eval").body)
                except SyntaxError:
                    return ANY
            return ANY
        if isinstance(node, ast.BinOp) and isinstance(node.op, ast.BitOr):
            return union(self.ann(m, node.left), self.ann(m, node.right))
        if isinstance(node, (ast.Name, ast.Attribute)):
            d = A.dotted(node) or ""
            last = d.split(".")[-1]
            if last in ("str",):
                return STR
            if last == "int":
                return INT
            if last == "bool":
                return BOOL
            if last == "float":
                return FLOAT
            if last in ("Any", "object"):
                return ANY
            if last == "None":
                return NONE
            if last in _SET:
                return ("set", ANY)
            if last in _SEQ:
                return ("list", ANY)
            if last in _DICT:
                return ("dict", ANY, ANY)
            if last in _ITER:
                return ("iter", ANY)
            if last in ("Tuple", "tuple"):
                return ("tuplev", ANY)
            if last == "Sized":
                return ANY
            kind, obj = self.prog.resolve_dotted(m, d)
            if kind == "class":
                return ("cls", obj.name)  # type: ignore[union-attr]
            if kind == "const" and getattr(self, "_alias_depth", 0) < 4:
                # a module-level type alias: `BranchRegion = tuple[str, set[str]] | None`
                mm, val = obj  # type: ignore[misc]
                if isinstance(val, (ast.Subscript, ast.BinOp, ast.Name, ast.Attribute)) or (isinstance(val, ast.Constant) and isinstance(val.value, str)):
                    self._alias_depth = getattr(self, "_alias_depth", 0) + 1
                    try:
                        return self.ann(mm, val)
                    finally:
                        self._alias_depth -= 1
            if kind == "external":
                return ("ext", obj)
            if d in self.prog.classes:
                return ("cls", d)
            if d in m.imports:
                return ("ext", m.imports[d])
            return ("ext", d) if d else ANY
        if isinstance(node, ast.Subscript):
            base = (A.dotted(node.value) or "").split(".")[-1]
            sl = node.slice
            args = list(sl.elts) if isinstance(sl, ast.Tuple) else [sl]
            if base in _SET:
                return ("set", self.ann(m, args[0]))
            if base in _SEQ:
                return ("list", self.ann(m, args[0]))
            if base in _ITER:
                return ("iter", self.ann(m, args[0]))
            if base in _DICT:
                if len(args) >= 2:
                    return ("dict", self.ann(m, args[0]), self.ann(m, args[1]))
                return ("dict", ANY, ANY)
            if base in ("Tuple", "tuple"):
                if len(args) == 2 and isinstance(args[1], ast.Constant) and args[1].value is Ellipsis:
                    return ("tuplev", self.ann(m, args[0]))
                return ("tuple", tuple(self.ann(m, a) for a in args))
            if base == "Optional":
                return union(self.ann(m, args[0]), NONE)
            if base == "Union":
                return union(*[self.ann(m, a) for a in args])
            if base in ("type", "Type"):
                t = self.ann(m, args[0])
                if t[0] == "cls":
                    return ("type", t[1])
                return ANY
            if base in ("Callable",):
                return ANY
            return ANY
        return ANY

    # ------------------------------------------------------------ class info
    def instance_attrs(self, c: ClassInfo) -> Dict[str, tuple]:
        """attribute types of instances: class-level annotations (all classes in
        the MRO) plus annotated/inferred `self.x = ...` in methods."""
        if c.name in self._inst_attr_cache:
            return self._inst_attr_cache[c.name]
        out: Dict[str, tuple] = {}
        self._inst_attr_cache[c.name] = out
        for k in reversed(c.mro()):
            for f in k.own_fields:
                out[f.name] = self.ann(k.module, f.annotation)
            for meth in k.methods.values():
                for node in A.walk_no_nested(meth.node):
                    if isinstance(node, ast.AnnAssign) and isinstance(node.target, ast.Attribute):
                        if isinstance(node.target.value, ast.Name) and node.target.value.id == "self":
                            out[node.target.attr] = self.ann(k.module, node.annotation)
        # un-annotated self.x = expr in __init__-like methods
        for k in reversed(c.mro()):
            for meth in k.methods.values():
                for node in A.walk_no_nested(meth.node):
                    if isinstance(node, ast.Assign):
                        for tgt in node.targets:
                            if (
                                isinstance(tgt, ast.Attribute)
                                and isinstance(tgt.value, ast.Name)
                                and tgt.value.id == "self"
                                and tgt.attr not in out
                            ):
                                env = self.env(meth)
                                out[tgt.attr] = self.type_of(node.value, env, meth)
        return out

    # ------------------------------------------------------------------- env
    def env(self, fn: FunctionInfo) -> Dict[str, tuple]:
        key = id(fn.node)
        if key in self._env_cache:
            return self._env_cache[key]
        env: Dict[str, tuple] = {}
        self._env_cache[key] = env  # recursion guard
        if fn.parent_fn is not None:
            env.update(self.env(fn.parent_fn))
        m = fn.module
        args = fn.node.args  # type: ignore[attr-defined]
        params = list(args.posonlyargs) + list(args.args) + list(args.kwonlyargs)
        for i, a in enumerate(params):
            if i == 0 and fn.cls is not None and not fn.is_static and a.annotation is None:
                env[a.arg] = ("cls", fn.cls.name)
            else:
                env[a.arg] = self.ann(m, a.annotation)
        if args.vararg is not None:
            env[args.vararg.arg] = ("tuplev", self.ann(m, args.vararg.annotation))
        if args.kwarg is not None:
            env[args.kwarg.arg] = ("dict", STR, self.ann(m, args.kwarg.annotation))
        annotated = set()
        for node in A.walk_no_nested(fn.node):
            if isinstance(node, ast.AnnAssign) and isinstance(node.target, ast.Name):
                env[node.target.id] = self.ann(m, node.annotation)
                annotated.add(node.target.id)
        for _ in range(3):
            for node in A.walk_no_nested(fn.node):
                self._bind_stmt(node, env, fn, annotated)
        return env

    def _namedtuple_fields(self, t: tuple):
        """field types, in order, of a value whose class is a typing.NamedTuple of the package (else None)"""
        if not t or t[0] != "cls":
            return None
        c = self.prog.classes.get(t[1])
        if c is None or not any(b.split(".")[-1] == "NamedTuple" for b in c.base_names):
            return None
        return [self.ann(c.module, f.annotation) for f in c.own_fields]

    def _bind(self, target: ast.AST, t: tuple, env, annotated) -> None:
        if isinstance(target, ast.Name):
            if target.id in annotated:
                return
            old = env.get(target.id)
            if old is None or old == ANY:
                env[target.id] = t
            elif t != ANY:
                env[target.id] = union(old, t)
        elif isinstance(target, (ast.Tuple, ast.List)):
            for i, e in enumerate(target.elts):
                if isinstance(e, ast.Starred):
                    self._bind(e.value, ("list", elem(t)), env, annotated)
                    continue
                et = ANY
                ms = members(strip_none(t))
                if len(ms) == 1:
                    mt = next(iter(ms))
                    nt = self._namedtuple_fields(mt)
                    if mt[0] == "tuple" and i < len(mt[1]):
                        et = mt[1][i]
                    elif nt is not None and i < len(nt):
                        et = nt[i]  # a NamedTuple unpacks into its fields in order
                    else:
                        et = elem(mt)
                else:
                    et = elem(t)
                self._bind(e, et, env, annotated)

    def _bind_stmt(self, node: ast.AST, env, fn: FunctionInfo, annotated) -> None:
        if isinstance(node, ast.Assign):
            t = self.type_of(node.value, env, fn)
            for tgt in node.targets:
                self._bind(tgt, t, env, annotated)
        elif isinstance(node, ast.AugAssign) and isinstance(node.target, ast.Name):
            pass
        elif isinstance(node, (ast.For, ast.AsyncFor)):
            self._bind(node.target, self.iter_elem(self.type_of(node.iter, env, fn)), env, annotated)
        elif isinstance(node, ast.With):
            for item in node.items:
                if item.optional_vars is not None:
                    self._bind(item.optional_vars, ANY, env, annotated)
        elif isinstance(node, ast.NamedExpr):
            self._bind(node.target, self.type_of(node.value, env, fn), env, annotated)
        elif isinstance(node, (ast.Import, ast.ImportFrom)):
            # function-local imports
            for a in node.names:
                local = a.asname or a.name.split(".")[0]
                full = (node.module + "." + a.name) if isinstance(node, ast.ImportFrom) else a.name
                kind, obj = self.prog._resolve_abs(full)
                if kind == "function":
                    env[local] = ("func", obj)
                elif kind == "class":
                    env[local] = ("type", obj.name)  # type: ignore[union-attr]
                elif kind == "module":
                    env[local] = ("module", full)
                else:
                    env[local] = ("module", full)
        elif isinstance(node, (ast.FunctionDef, ast.AsyncFunctionDef)) and node is not fn.node:
            fi = self.prog.function_of_node(node)
            if fi is not None:
                env[node.name] = ("func", fi)
        elif isinstance(node, ast.ClassDef):
            if node.name in self.prog.classes:
                env[node.name] = ("type", node.name)

    # ----------------------------------------------------------- expressions
    def type_of(self, e: ast.AST, env: Dict[str, tuple], fn: Optional[FunctionInfo]) -> tuple:
        m = fn.module if fn is not None else None
        if isinstance(e, ast.Constant):
            v = e.value
            if v is None:
                return NONE
            if isinstance(v, bool):
                return BOOL
            if isinstance(v, int):
                return INT
            if isinstance(v, str):
                return STR
            if isinstance(v, float):
                return FLOAT
            return ANY
        if isinstance(e, ast.JoinedStr):
            return STR
        if isinstance(e, ast.Name):
            ct = self._comp_binding(e, env, fn)
            if ct is not None:
                return ct
            if e.id in env:
                nt = self.narrowed(e, fn)
                if nt is not None:
                    return nt
                return env[e.id]
            if m is not None:
                kind, obj = self.prog.resolve_dotted(m, e.id)
                if kind == "class":
                    return ("type", obj.name)  # type: ignore[union-attr]
                if kind == "function":
                    return ("func", obj)
                if kind == "module":
                    return ("module", obj.name)  # type: ignore[union-attr]
                if kind == "external":
                    return ("module", obj)
                if kind == "const":
                    mm, val = obj  # type: ignore[misc]
                    return self.type_of(val, {}, None) if not isinstance(val, ast.Name) else ANY
            return ANY
        if isinstance(e, ast.Set):
            return ("set", union(*[self.type_of(x, env, fn) for x in e.elts]) if e.elts else ANY)
        if isinstance(e, ast.List):
            return ("list", union(*[self.type_of(x, env, fn) for x in e.elts if not isinstance(x, ast.Starred)]) if e.elts else ANY)
        if isinstance(e, ast.Tuple):
            if any(isinstance(x, ast.Starred) for x in e.elts):
                return ("tuplev", ANY)
            return ("tuple", tuple(self.type_of(x, env, fn) for x in e.elts))
        if isinstance(e, ast.Dict):
            ks = [self.type_of(k, env, fn) for k in e.keys if k is not None]
            vs = [self.type_of(v, env, fn) for v in e.values]
            return ("dict", union(*ks) if ks else ANY, union(*vs) if vs else ANY)
        if isinstance(e, (ast.ListComp, ast.SetComp, ast.GeneratorExp, ast.DictComp)):
            env2 = dict(env)
            for g in e.generators:
                self._bind(g.target, self.iter_elem(self.type_of(g.iter, env2, fn)), env2, set())
            if isinstance(e, ast.DictComp):
                return ("dict", self.type_of(e.key, env2, fn), self.type_of(e.value, env2, fn))
            t = self.type_of(e.elt, env2, fn)
            return ({ast.ListComp: "list", ast.SetComp: "set", ast.GeneratorExp: "iter"}[type(e)], t)
        if isinstance(e, ast.IfExp):
            return union(self.type_of(e.body, env, fn), self.type_of(e.orelse, env, fn))
        if isinstance(e, ast.BoolOp):
            return union(*[self.type_of(v, env, fn) for v in e.values])
        if isinstance(e, ast.Compare):
            return BOOL
        if isinstance(e, ast.UnaryOp):
            return BOOL if isinstance(e.op, ast.Not) else self.type_of(e.operand, env, fn)
        if isinstance(e, ast.BinOp):
            lt, rt = self.type_of(e.left, env, fn), self.type_of(e.right, env, fn)
            if isinstance(e.op, (ast.Sub, ast.BitAnd, ast.BitOr, ast.BitXor)) and (is_set(lt) or is_set(rt)):
                return lt if is_set(lt) else rt
            if isinstance(e.op, (ast.Sub, ast.BitAnd, ast.BitOr, ast.BitXor)):
                # dict views support set algebra and yield a set
                for side, st in ((e.left, lt), (e.right, rt)):
                    if isinstance(side, ast.Call) and isinstance(side.func, ast.Attribute) and side.func.attr in ("keys", "items") and strip_none(st)[0] == "iter":
                        return ("set", strip_none(st)[1])
            if isinstance(e.op, ast.Add):
                if strip_none(lt)[0] in ("list", "str", "tuple", "tuplev"):
                    return lt
                if strip_none(rt)[0] in ("list", "str"):
                    return rt
            if lt == INT and rt == INT:
                return INT
            if isinstance(e.op, ast.Mod) and lt == STR:
                return STR
            if isinstance(e.op, ast.Mult) and (lt == STR or rt == STR):
                return STR
            return ANY
        if isinstance(e, ast.Starred):
            return self.type_of(e.value, env, fn)
        if isinstance(e, ast.NamedExpr):
            return self.type_of(e.value, env, fn)
        if isinstance(e, ast.Await):
            return ANY
        if isinstance(e, ast.Attribute):
            return self._attr(e, env, fn)
        if isinstance(e, ast.Subscript):
            return self._subscript(e, env, fn)
        if isinstance(e, ast.Call):
            return self._call(e, env, fn)
        if isinstance(e, ast.Lambda):
            return ANY
        return ANY

    def _attr(self, e: ast.Attribute, env, fn) -> tuple:
        if isinstance(e.value, ast.Name) and e.value.id in ("dict", "OrderedDict") and e.value.id not in env and e.attr == "fromkeys":
            return ("bmeth", ("dict", ANY, ANY), "fromkeys")
        bt = self.type_of(e.value, env, fn)
        outs = []
        for b in members(strip_none(bt)):
            outs.append(self._attr_of(b, e.attr, fn))
        return union(*outs) if outs else ANY

    def _attr_of(self, b: tuple, attr: str, fn) -> tuple:
        if b[0] == "cls":
            c = self.prog.classes.get(b[1])
            if c is None:
                return ANY
            meth = c.find_method(attr)
            if meth is not None:
                if meth.is_property:
                    return self.ann(meth.module, meth.node.returns)  # type: ignore[attr-defined]
                return ("bound", b, meth)
            ia = self.instance_attrs(c)
            if attr in ia:
                return ia[attr]
            d = self.dict_base(c)
            if d is not None:
                return ("bmeth", d, attr)
            # a member that only subclasses define (`block.get_tree()` / `block.tree` on a value declared as the
            # base class, under a `# type: ignore`): the type the subclasses agree on
            outs = []
            for k in self.prog.subclasses(c, strict=True):
                if attr in k.methods:
                    mk = k.methods[attr]
                    outs.append(self.ann(mk.module, mk.node.returns) if mk.is_property else ("bound", ("cls", k.name), mk))
                else:
                    ik = self.instance_attrs(k)
                    if attr in ik and not any(attr in self.instance_attrs(p_) for p_ in k.mro()[1:] if p_ is not k):
                        outs.append(ik[attr])
            if outs and all(o == outs[0] or (o[0] == "bound" and outs[0][0] == "bound" and ast.dump(o[2].node.returns) == ast.dump(outs[0][2].node.returns) if o[0] == "bound" and o[2].node.returns is not None and outs[0][2].node.returns is not None else o == outs[0]) for o in outs):
                return outs[0]
            return ANY
        if b[0] == "type":
            c = self.prog.classes.get(b[1])
            if c is not None:
                meth = c.find_method(attr)
                if meth is not None:
                    return ("func", meth) if meth.is_static else ("bound", ("cls", c.name), meth)
            return ANY
        if b[0] == "module":
            kind, obj = self.prog._resolve_abs(b[1] + "." + attr)
            if kind == "function":
                return ("func", obj)
            if kind == "class":
                return ("type", obj.name)  # type: ignore[union-attr]
            if kind == "module":
                return ("module", obj.name)  # type: ignore[union-attr]
            if kind == "const":
                mm, val = obj  # type: ignore[misc]
                return self.type_of(val, {}, None)
            return ("module", b[1] + "." + attr)
        if b[0] in ("set", "list", "dict", "str", "tuple", "tuplev", "iter"):
            return ("bmeth", b, attr)
        return ANY

    def _subscript(self, e: ast.Subscript, env, fn) -> tuple:
        bt = self.type_of(e.value, env, fn)
        outs = []
        for b in members(strip_none(bt)):
            k = b[0]
            if isinstance(e.slice, ast.Slice):
                outs.append(b if k in ("list", "str", "tuplev") else (("tuplev", union(*b[1])) if k == "tuple" and b[1] else ANY))
            elif k == "dict":
                outs.append(b[2])
            elif k in ("list", "tuplev"):
                outs.append(b[1])
            elif k == "tuple":
                if isinstance(e.slice, ast.Constant) and isinstance(e.slice.value, int) and -len(b[1]) <= e.slice.value < len(b[1]):
                    outs.append(b[1][e.slice.value])
                else:
                    outs.append(union(*b[1]) if b[1] else ANY)
            elif k == "str":
                outs.append(STR)
            elif k == "cls" and self._namedtuple_fields(b) is not None:
                nt = self._namedtuple_fields(b)
                if isinstance(e.slice, ast.Constant) and isinstance(e.slice.value, int) and -len(nt) <= e.slice.value < len(nt):
                    outs.append(nt[e.slice.value])
                else:
                    outs.append(union(*nt) if nt else ANY)
            elif k == "cls":
                c = self.prog.classes.get(b[1])
                gm = c.find_method("__getitem__") if c else None
                if gm is not None:
                    outs.append(self.ann(gm.module, gm.node.returns))  # type: ignore[attr-defined]
                else:
                    # subclass of dict[...]?  (class ASTCFG(dict[str, WritableASTBlock]))
                    outs.append(self._dict_base_value(c) if c else ANY)
            else:
                outs.append(ANY)
        return union(*outs) if outs else ANY

    def dict_base(self, c: Optional[ClassInfo]) -> Optional[tuple]:
        """('dict', K, V) when class c derives from dict[K, V] / Mapping[K, V]"""
        if c is None:
            return None
        for k in c.mro():
            for b in k.node.bases:
                if isinstance(b, ast.Subscript):
                    t = self.ann(k.module, b)
                    if t[0] == "dict":
                        return t
        return None

    def _dict_base_value(self, c: ClassInfo) -> tuple:
        d = self.dict_base(c)
        return d[2] if d else ANY

    def _call(self, e: ast.Call, env, fn) -> tuple:
        f = e.func
        # builtins
        if isinstance(f, ast.Name) and f.id not in env:
            n = f.id
            a0 = self.type_of(e.args[0], env, fn) if e.args else None
            if n in ("set", "frozenset"):
                return ("set", elem(a0) if a0 else ANY)
            if n in ("list", "sorted", "deque", "reversed"):
                return ("list", elem(a0) if a0 else ANY)
            if n == "tuple":
                return ("tuplev", elem(a0) if a0 else ANY)
            if n in ("dict", "defaultdict", "OrderedDict"):
                if n == "defaultdict" and e.args:
                    v = e.args[0]
                    vt = ANY
                    if isinstance(v, ast.Name) and v.id in ("set", "list", "dict", "int"):
                        vt = {"set": ("set", ANY), "list": ("list", ANY), "dict": ("dict", ANY, ANY), "int": INT}[v.id]
                    return ("dict", ANY, vt)
                if a0 and strip_none(a0)[0] == "dict":
                    return strip_none(a0)
                if a0:
                    et = elem(a0)
                    if et[0] == "tuple" and len(et[1]) == 2:
                        return ("dict", et[1][0], et[1][1])
                    if strip_none(a0)[0] == "cls":
                        # dict(scfg) for a class with __iter__ yielding pairs
                        it = self._iter_elem_of_cls(strip_none(a0))
                        if it[0] == "tuple" and len(it[1]) == 2:
                            return ("dict", it[1][0], it[1][1])
                return ("dict", ANY, ANY)
            if n == "len":
                return INT
            if n in ("str", "repr"):
                return STR
            if n == "int":
                return INT
            if n in ("bool", "isinstance", "callable", "any", "all", "hasattr"):
                return BOOL
            if n == "iter":
                return ("iterof", a0) if a0 else ANY
            if n == "next":
                if a0 and a0[0] == "iterof":
                    return elem(a0[1])
                return elem(a0) if a0 else ANY
            if n == "enumerate":
                return ("iter", ("tuple", (INT, elem(a0) if a0 else ANY)))
            if n == "zip":
                return ("iter", ("tuple", tuple(elem(self.type_of(a, env, fn)) for a in e.args)))
            if n == "range":
                return ("iter", INT)
            if n in ("min", "max"):
                if len(e.args) == 1 and a0:
                    return elem(a0)
                return union(*[self.type_of(a, env, fn) for a in e.args]) if e.args else ANY
            if n == "sum":
                return INT
            if n == "type":
                return ANY
            if n == "cast" and len(e.args) == 2:
                return self.ann(fn.module, e.args[0]) if fn is not None else ANY
            if n == "replace" and a0:
                return a0
        if isinstance(f, ast.Name) and f.id == "cast" and len(e.args) == 2 and fn is not None:
            return self.ann(fn.module, e.args[0])
        ft = self.type_of(f, env, fn)
        outs = []
        for t in members(ft):
            outs.append(self._call_result(t, e, env, fn))
        return union(*outs) if outs else ANY

    def _iter_elem_of_cls(self, t: tuple) -> tuple:
        c = self.prog.classes.get(t[1])
        if c is None:
            return ANY
        im = c.find_method("__iter__")
        if im is not None:
            return elem(self.ann(im.module, im.node.returns))  # type: ignore[attr-defined]
        d = self.dict_base(c)
        if d:
            return d[1]
        return ANY

    def _call_result(self, t: tuple, e: ast.Call, env, fn) -> tuple:
        k = t[0]
        if k == "type":
            return ("cls", t[1])
        if k in ("func", "bound"):
            fi: FunctionInfo = t[1] if k == "func" else t[2]
            return self.ann(fi.module, fi.node.returns)  # type: ignore[attr-defined]
        if k == "bmeth":
            base, name = t[1], t[2]
            bk = base[0]
            if bk == "set":
                if name in ("intersection", "union", "difference", "symmetric_difference", "copy"):
                    return base
                if name == "pop":
                    return base[1]
                if name in ("issubset", "issuperset", "isdisjoint"):
                    return BOOL
                return NONE
            if bk == "dict":
                if name == "items":
                    return ("iter", ("tuple", (base[1], base[2])))
                if name == "keys":
                    return ("iter", base[1])
                if name == "values":
                    return ("iter", base[2])
                if name in ("get", "pop", "setdefault"):
                    dflt = self.type_of(e.args[1], env, fn) if len(e.args) > 1 else (NONE if name == "get" else None)
                    return union(base[2], dflt) if dflt else base[2]
                if name == "copy":
                    return base
                if name == "fromkeys":
                    a0 = self.type_of(e.args[0], env, fn) if e.args else ANY
                    return ("dict", self.iter_elem(a0), NONE)
                return NONE
            if bk == "list":
                if name in ("pop",):
                    return base[1]
                if name in ("copy",):
                    return base
                if name in ("index", "count"):
                    return INT
                return NONE
            if bk == "str":
                if name in ("split", "splitlines", "rsplit"):
                    return ("list", STR)
                if name in ("startswith", "endswith", "isdigit"):
                    return BOOL
                return STR
            if bk in ("tuple", "tuplev"):
                return INT
            return ANY
        if k == "cls":
            c = self.prog.classes.get(t[1])
            cm = c.find_method("__call__") if c else None
            if cm is not None:
                return self.ann(cm.module, cm.node.returns)  # type: ignore[attr-defined]
        return ANY

    def _comp_binding(self, e: ast.Name, env, fn):
        """type of a name bound by an enclosing comprehension (its own scope)"""
        child: ast.AST = e
        for anc in A.ancestors(e):
            if isinstance(anc, (ast.ListComp, ast.SetComp, ast.GeneratorExp, ast.DictComp)):
                gens = anc.generators
                # generators visible to `child`: all for the element, preceding ones for an iter
                upto = len(gens)
                for i, g in enumerate(gens):
                    if child is g:
                        upto = i + 1
                        if any(n is e for n in ast.walk(g.iter)):
                            upto = i
                env2 = dict(env)
                hit = None
                for g in gens[:upto]:
                    bound = {n.id for n in ast.walk(g.target) if isinstance(n, ast.Name)}
                    t = self.iter_elem(self.type_of(g.iter, env2, fn))
                    self._bind(g.target, t, env2, set())
                    if e.id in bound:
                        # a fresh binding: ignore what the function scope says
                        tmp: Dict[str, tuple] = {}
                        self._bind(g.target, t, tmp, set())
                        hit = tmp.get(e.id, ANY)
                        env2[e.id] = hit
                if hit is not None:
                    nt = self.narrowed(e, fn)
                    return nt if nt is not None else hit
            if isinstance(anc, (ast.FunctionDef, ast.AsyncFunctionDef, ast.Lambda)):
                break
            child = anc
        return None

    # -------------------------------------------------------------- narrowing
    def _isinstance_facts(self, test: ast.AST, name: str, m: ModuleInfo, positive: bool = True, fn_node: Optional[ast.AST] = None):
        """class names C such that `test` being true (positive) implies
        isinstance(name, C) / type(name) is C"""
        out = []
        if isinstance(test, ast.UnaryOp) and isinstance(test.op, ast.Not):
            return self._isinstance_facts(test.operand, name, m, not positive, fn_node)
        if isinstance(test, ast.BoolOp) and isinstance(test.op, ast.And) and positive:
            for v in test.values:
                out += self._isinstance_facts(v, name, m, True, fn_node)
            return out
        if isinstance(test, ast.BoolOp) and isinstance(test.op, ast.Or) and not positive:
            for v in test.values:
                out += self._isinstance_facts(v, name, m, False, fn_node)
            return out
        if isinstance(test, ast.Name) and fn_node is not None and positive:
            # a boolean local bound once to a test (`is_region = isinstance(b, RegionBlock)`)
            defs = [s_ for s_ in ast.walk(fn_node) if isinstance(s_, ast.Assign) and len(s_.targets) == 1 and isinstance(s_.targets[0], ast.Name) and s_.targets[0].id == test.id]
            stores = [x for x in ast.walk(fn_node) if isinstance(x, ast.Name) and x.id == test.id and isinstance(x.ctx, ast.Store)]
            rebinds = [x for x in ast.walk(fn_node) if isinstance(x, ast.Name) and x.id == name and isinstance(x.ctx, ast.Store)]
            if len(defs) == 1 and len(stores) == 1 and len(rebinds) <= 0 and not isinstance(defs[0].value, ast.Name):
                return self._isinstance_facts(defs[0].value, name, m, True, None)
            return out
        if isinstance(test, ast.Call) and isinstance(test.func, ast.Name) and test.func.id == "isinstance" and len(test.args) == 2:
            if isinstance(test.args[0], ast.Name) and test.args[0].id == name and positive:
                t = self.ann(m, test.args[1]) if not isinstance(test.args[1], ast.Tuple) else union(*[self.ann(m, x) for x in test.args[1].elts])
                out.append(t)
            return out
        if isinstance(test, ast.Compare) and len(test.ops) == 1 and isinstance(test.ops[0], (ast.Is, ast.Eq)) and positive:
            l, r = test.left, test.comparators[0]
            if isinstance(l, ast.Call) and isinstance(l.func, ast.Name) and l.func.id == "type" and l.args and isinstance(l.args[0], ast.Name) and l.args[0].id == name:
                out.append(self.ann(m, r))
        return out

    def narrowed(self, e: ast.Name, fn: Optional[FunctionInfo]):
        """type of name e narrowed by enclosing `if isinstance(...)`, a
        preceding `assert isinstance(...)` in an enclosing statement list, or a
        conjunct to the left in an `and` chain; None when nothing applies."""
        if fn is None or A.parent(e) is None:
            return None
        m = fn.module
        facts = []
        child: ast.AST = e
        for anc in A.ancestors(e):
            if anc is fn.node:
                body = getattr(anc, "body", [])
                facts += self._preceding_asserts(body, child, e.id, m)
                if isinstance(child, ast.If) and child in body and any(e is x for b_ in child.body for x in ast.walk(b_)):
                    facts += self._same_guard_facts(body, child, e.id, m, fn)
                break
            if isinstance(anc, (ast.If, ast.While)) and child in anc.body:
                facts += self._isinstance_facts(anc.test, e.id, m, True, fn.node)
            if isinstance(anc, ast.If) and child in anc.orelse:
                facts += self._isinstance_facts(anc.test, e.id, m, False, fn.node)
            if isinstance(anc, ast.IfExp) and child is anc.body:
                facts += self._isinstance_facts(anc.test, e.id, m)
            if isinstance(anc, ast.BoolOp) and isinstance(anc.op, ast.And) and child in anc.values:
                for v in anc.values[: anc.values.index(child)]:
                    facts += self._isinstance_facts(v, e.id, m)
            if isinstance(anc, (ast.comprehension,)):
                pass
            if isinstance(anc, (ast.ListComp, ast.SetComp, ast.GeneratorExp, ast.DictComp)):
                for g in anc.generators:
                    for cond in g.ifs:
                        if cond is not child:
                            facts += self._isinstance_facts(cond, e.id, m)
            for fld in ("body", "orelse", "finalbody"):
                seq = getattr(anc, fld, None)
                if isinstance(seq, list) and child in seq:
                    facts += self._preceding_asserts(seq, child, e.id, m)
                    if isinstance(child, ast.If) and any(e is x for b_ in child.body for x in ast.walk(b_)):
                        facts += self._same_guard_facts(seq, child, e.id, m, fn)
            child = anc
        facts = [f for f in facts if f != ANY]
        if not facts:
            return None
        # most specific fact wins (last found is outermost; first is innermost)
        return facts[0]

    def _same_guard_facts(self, seq, use_if: ast.If, name: str, m, fn):
        """the name is bound and narrowed (`x = ..; assert isinstance(x, C)`) in the body of an earlier
        if-statement of the same list with the same test - a flag bound once in the function - and bound nowhere
        else: under the flag the later use sees the narrowed value"""
        t = use_if.test
        flag = t.id if isinstance(t, ast.Name) else None
        if flag is None:
            return []
        stores_flag = [x for x in ast.walk(fn.node) if isinstance(x, ast.Name) and x.id == flag and isinstance(x.ctx, (ast.Store, ast.Del))]
        if any(isinstance(a, (ast.For, ast.While)) for sf in stores_flag for a in A.ancestors(sf) if a is not fn.node and any(use_if is y for y in ast.walk(a))):
            return []
        out = []
        for st in seq[: seq.index(use_if)]:
            if isinstance(st, ast.If) and isinstance(st.test, ast.Name) and st.test.id == flag:
                # the flag has its final value before the first of the two tests
                if any((getattr(sf, "lineno", 0), getattr(sf, "col_offset", 0)) >= (st.lineno, st.col_offset) for sf in stores_flag):
                    continue
                inside = {id(x) for b_ in st.body for x in ast.walk(b_)}
                stores = [x for x in ast.walk(fn.node) if isinstance(x, ast.Name) and x.id == name and isinstance(x.ctx, (ast.Store, ast.Del))]
                if stores and all(id(x) in inside for x in stores):
                    # the facts that hold at the end of that body
                    marker = ast.Pass()
                    out = self._preceding_asserts(list(st.body) + [marker], marker, name, m)
        return out

    def _preceding_asserts(self, seq, child, name, m):
        out = []
        if child not in seq:
            return out
        for st in seq[: seq.index(child)]:
            if isinstance(st, ast.Assert):
                out += self._isinstance_facts(st.test, name, m)
            elif isinstance(st, ast.If) and not st.orelse and A.always_leaves(st.body):
                # guard clause: `if not isinstance(x, C): raise ..` narrows what follows
                out += self._isinstance_facts(st.test, name, m, False)
            elif isinstance(st, (ast.Assign, ast.AugAssign, ast.AnnAssign, ast.For)):
                # a rebinding of the name invalidates earlier facts
                tg = []
                if isinstance(st, ast.Assign):
                    tg = st.targets
                elif isinstance(st, ast.For):
                    tg = [st.target]
                else:
                    tg = [st.target]
                if any(isinstance(n, ast.Name) and n.id == name for t in tg for n in ast.walk(t)):
                    out = []
        return list(reversed(out))

    # ------------------------------------------------------------- utilities
    def iter_elem(self, t: tuple) -> tuple:
        """element type of iterating t, also through library classes with
        __iter__ or a dict base"""
        outs = []
        for mt in members(strip_none(t)):
            if mt[0] == "cls":
                outs.append(self._iter_elem_of_cls(mt))
            else:
                outs.append(elem(mt))
        return union(*outs) if outs else ANY

    def classes_of(self, t: tuple) -> list:
        return [self.prog.classes[mt[1]] for mt in members(strip_none(t)) if mt[0] == "cls" and mt[1] in self.prog.classes]
