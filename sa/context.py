"""Shared analysis context handed to every rule."""
from __future__ import annotations

import ast
from functools import cached_property
from typing import Dict, List, Optional

from . import astutil as A
from .callgraph import CallGraph
from .cfg import CFG, cfg_of
from .model import AnalysisError, FunctionInfo, Program
from .types import Typer


class Ctx:
    def __init__(self, repo: Optional[str] = None, tier: str = "quick") -> None:
        self.prog = Program(repo) if repo else Program()
        self.tier = tier
        self.notes: List[str] = []
        self.stats: Dict[str, object] = {}

    @cached_property
    def typer(self) -> Typer:
        return Typer(self.prog)

    @cached_property
    def cg(self) -> CallGraph:
        return CallGraph(self.prog, self.typer)

    def cfg(self, fn: FunctionInfo) -> CFG:
        return cfg_of(fn.node)

    def where(self, fn_or_mod, node: Optional[ast.AST] = None) -> str:
        mod = getattr(fn_or_mod, "module", fn_or_mod)
        line = A.lineno(node) if node is not None else A.lineno(getattr(fn_or_mod, "node", None) or ast.Module())
        return f"{mod.relpath}:{line}"

    def fn(self, qualname: str, module: Optional[str] = None) -> FunctionInfo:
        return self.prog.function(qualname, module)

    def type_of(self, fn: FunctionInfo, expr: ast.AST):
        return self.typer.type_of(expr, self.typer.env(fn), fn)

    def entry_points(self, group: str) -> List[FunctionInfo]:
        """public entry points by group; missing ones are an analysis error"""
        table = {
            "restructure": ["SCFG.restructure", "SCFG.restructure_loop", "SCFG.restructure_branch", "SCFG.join_returns"],
            "frontend_ast": ["AST2SCFG", "AST2SCFGTransformer.transform_to_SCFG", "AST2SCFGTransformer.transform_to_ASTCFG"],
            "backend_ast": ["SCFG2AST"],
            "frontend_bc": ["ByteFlow.from_bytecode"],
            "io": ["SCFG.to_dict", "SCFG.to_yaml", "SCFG.from_dict", "SCFG.from_yaml"],
            "edit": ["SCFG.insert_block", "SCFG.insert_block_and_control_blocks", "SCFG.join_returns", "SCFG.join_tails_and_exits",
                     "SCFG.insert_SyntheticExit", "SCFG.insert_SyntheticTail", "SCFG.insert_SyntheticReturn", "SCFG.insert_SyntheticFill"],
        }
        return [self.fn(q) for q in table[group]]
