"""Small finite abstract domains, evaluated by enumeration (no solver):
class-domain evaluation of isinstance / type() dispatch chains, length classes
for conjunctions of len() guards, string skeletons."""
from __future__ import annotations

import ast
from typing import Callable, Dict, List, Optional, Tuple

from . import astutil as A

# --------------------------------------------------------------- class domain


def _class_names(node: ast.AST) -> Optional[List[str]]:
    """['ast.If', 'RegionBlock'] for a class expr or a tuple of them"""
    if isinstance(node, (ast.Tuple, ast.List, ast.Set)):
        out: List[str] = []
        for e in node.elts:
            d = A.dotted(e)
            if d is None:
                return None
            out.append(d)
        return out
    if isinstance(node, ast.BinOp) and isinstance(node.op, ast.BitOr):
        l, r = _class_names(node.left), _class_names(node.right)
        return None if l is None or r is None else l + r
    d = A.dotted(node)
    return [d] if d is not None else None


def _is_type_of(node: ast.AST, subject: str) -> bool:
    return (
        isinstance(node, ast.Call)
        and isinstance(node.func, ast.Name)
        and node.func.id == "type"
        and len(node.args) == 1
        and A.unparse(node.args[0]) == subject
    )


FIELDS_OF: Optional[Callable[[str], Optional[List[str]]]] = None  # set by callers that know the class fields


def eval_class_test(test: ast.AST, subject: str, K: str, is_sub: Callable[[str, str], bool],
                    resolve: Callable[[ast.AST], Optional[List[str]]] = _class_names) -> Optional[bool]:
    """Truth of `test` when the value of expression `subject` is an instance
    whose exact class is K.  None = cannot tell (opaque conjunct)."""
    if isinstance(test, ast.BoolOp):
        vals = [eval_class_test(v, subject, K, is_sub, resolve) for v in test.values]
        if isinstance(test.op, ast.And):
            if any(v is False for v in vals):
                return False
            return True if all(v is True for v in vals) else None
        if any(v is True for v in vals):
            return True
        return False if all(v is False for v in vals) else None
    if isinstance(test, ast.UnaryOp) and isinstance(test.op, ast.Not):
        v = eval_class_test(test.operand, subject, K, is_sub, resolve)
        return None if v is None else (not v)
    if isinstance(test, ast.Call) and isinstance(test.func, ast.Name) and test.func.id == "isinstance" and len(test.args) == 2:
        if A.unparse(test.args[0]) != subject:
            return None
        cs = resolve(test.args[1])
        if cs is None:
            return None
        return any(is_sub(K, c) for c in cs)
    if isinstance(test, ast.Call) and isinstance(test.func, ast.Name) and test.func.id == "hasattr" and len(test.args) == 2 and FIELDS_OF is not None:
        if A.unparse(test.args[0]) == subject and isinstance(test.args[1], ast.Constant):
            fs = FIELDS_OF(K)
            if fs is not None:
                return test.args[1].value in fs
    if isinstance(test, ast.Compare) and len(test.ops) == 1 and isinstance(test.ops[0], (ast.In, ast.NotIn)) and FIELDS_OF is not None:
        l, r = test.left, test.comparators[0]
        if isinstance(l, ast.Constant) and isinstance(r, ast.Attribute) and r.attr == "_fields" and A.unparse(r.value) == subject:
            fs = FIELDS_OF(K)
            if fs is not None:
                v = l.value in fs
                return v if isinstance(test.ops[0], ast.In) else not v
    if isinstance(test, ast.Compare) and len(test.ops) == 1:
        op, l, r = test.ops[0], test.left, test.comparators[0]
        if _is_type_of(r, subject) and not _is_type_of(l, subject):
            l, r = r, l
        if _is_type_of(l, subject):
            cs = resolve(r)
            if cs is None:
                return None
            exact = any(K.split(".")[-1] == c.split(".")[-1] for c in cs)
            if isinstance(op, (ast.Is, ast.Eq)) and len(cs) == 1:
                return exact
            if isinstance(op, (ast.IsNot, ast.NotEq)) and len(cs) == 1:
                return not exact
            if isinstance(op, ast.In):
                return exact
            if isinstance(op, ast.NotIn):
                return not exact
    return None


class Arm:
    def __init__(self, index: int, test: Optional[ast.AST], body: List[ast.stmt], node: ast.AST) -> None:
        self.index = index
        self.test = test  # None for the final else
        self.body = body
        self.node = node


def chain_arms(first_if: ast.If) -> List[Arm]:
    """arms of an if/elif/else chain (`else: if` nesting counts as elif when the
    else body is a single If)"""
    arms: List[Arm] = []
    cur: ast.AST = first_if
    top: ast.AST = first_if
    while isinstance(cur, ast.If):
        arms.append(Arm(len(arms), cur.test, cur.body, cur))
        if len(cur.orelse) == 1 and isinstance(cur.orelse[0], ast.If):
            cur = cur.orelse[0]
            continue
        if cur.orelse:
            arms.append(Arm(len(arms), None, cur.orelse, cur))
            break
        # no else clause: when every arm so far leaves (return / raise / continue / break), the statements that
        # follow the chain are its else arm - and a class test among them continues the chain (guard sequence)
        rest = _following(top)
        if rest and all(A.always_leaves(a.body) for a in arms):
            nxt = rest[0]
            if isinstance(nxt, ast.If) and ("isinstance(" in A.unparse(nxt.test) or "type(" in A.unparse(nxt.test) or A.always_leaves(nxt.body)):
                top = cur = nxt
                continue
            arms.append(Arm(len(arms), None, rest, cur))
            break
        arms.append(Arm(len(arms), None, [], cur))
        break
    return arms


def _following(st: ast.AST):
    """the statements after st in the statement list that holds it (None when it is the last one or the list
    cannot be found)"""
    par = A.parent(st)
    if par is None:
        return None
    for fld in ("body", "orelse", "finalbody"):
        seq = getattr(par, fld, None)
        if isinstance(seq, list) and any(x is st for x in seq):
            i = next(k for k, x in enumerate(seq) if x is st)
            return seq[i + 1:] or None
    return None


def dispatch(arms: List[Arm], subject: str, K: str, is_sub) -> Tuple[List[Arm], bool]:
    """(arms class K may reach, certain?)  certain = exactly one arm and no
    opaque test was passed on the way."""
    reached: List[Arm] = []
    certain = True
    for arm in arms:
        if arm.test is None:
            reached.append(arm)
            break
        v = eval_class_test(arm.test, subject, K, is_sub)
        if v is True:
            reached.append(arm)
            break
        if v is None:
            reached.append(arm)
            certain = False
    return reached, certain and len(reached) == 1


# -------------------------------------------------------------- length classes

LEN_CLASSES = (0, 1, 2, 3, 4)  # 4 stands for "4 or more"


def eval_len_test(test: ast.AST, lens: Dict[str, int]) -> Optional[bool]:
    """truth of a guard built from len(v) <op> const, and/or/not, for the
    length classes in `lens` (value 4 = 4+, comparisons with constants <= 4 are exact)"""
    if isinstance(test, ast.BoolOp):
        vals = [eval_len_test(v, lens) for v in test.values]
        if isinstance(test.op, ast.And):
            if any(v is False for v in vals):
                return False
            return True if all(v is True for v in vals) else None
        if any(v is True for v in vals):
            return True
        return False if all(v is False for v in vals) else None
    if isinstance(test, ast.UnaryOp) and isinstance(test.op, ast.Not):
        v = eval_len_test(test.operand, lens)
        if v is None and isinstance(test.operand, ast.Name) and test.operand.id in lens:
            return lens[test.operand.id] == 0
        return None if v is None else not v
    if isinstance(test, ast.Name) and test.id in lens:
        return lens[test.id] > 0
    if isinstance(test, ast.Compare) and len(test.ops) == 1:
        l, r, op = test.left, test.comparators[0], test.ops[0]

        def lenvar(n):
            if isinstance(n, ast.Call) and isinstance(n.func, ast.Name) and n.func.id == "len" and len(n.args) == 1 and isinstance(n.args[0], ast.Name):
                return n.args[0].id
            return None

        lv, rv = lenvar(l), lenvar(r)
        if lv is not None and isinstance(r, ast.Constant) and isinstance(r.value, int) and lv in lens:
            a, b = lens[lv], r.value
        elif rv is not None and isinstance(l, ast.Constant) and isinstance(l.value, int) and rv in lens:
            # const op len  ->  flip
            a, b = lens[rv], l.value
            op = {ast.Lt: ast.Gt, ast.Gt: ast.Lt, ast.LtE: ast.GtE, ast.GtE: ast.LtE}.get(type(op), type(op))()
        else:
            return None
        if b > 4:
            return None
        big = a == 4  # "4 or more"
        if isinstance(op, ast.Eq):
            return (None if b == 4 else False) if big else a == b
        if isinstance(op, ast.NotEq):
            return (None if b == 4 else True) if big else a != b
        if isinstance(op, ast.Gt):
            return True if big and b <= 4 and b < 4 else (None if big else a > b)
        if isinstance(op, ast.GtE):
            return True if big else a >= b
        if isinstance(op, ast.Lt):
            return False if big else a < b
        if isinstance(op, ast.LtE):
            return (None if b == 4 else False) if big else a <= b
    return None


# ------------------------------------------------------------ string skeletons


def skeleton(node: ast.AST, consts: Optional[Callable[[ast.AST], Optional[str]]] = None) -> Optional[List[object]]:
    """reduce a string-building expression to [literal | ('hole', text), ...]:
    f-strings, '+' concatenation, str(x) calls, constants.  None = not a string
    expression the domain understands."""
    if isinstance(node, ast.Constant) and isinstance(node.value, str):
        return [node.value]
    if isinstance(node, ast.JoinedStr):
        out: List[object] = []
        for v in node.values:
            if isinstance(v, ast.Constant) and isinstance(v.value, str):
                out.append(v.value)
            elif isinstance(v, ast.FormattedValue):
                hv = v.value
                if isinstance(hv, ast.Call) and isinstance(hv.func, ast.Name) and hv.func.id == "str" and len(hv.args) == 1:
                    hv = hv.args[0]  # f"{str(x)}" is f"{x}"
                out.append(("hole", A.unparse(hv)))
            else:
                return None
        return _merge(out)
    if isinstance(node, ast.BinOp) and isinstance(node.op, ast.Add):
        l, r = skeleton(node.left, consts), skeleton(node.right, consts)
        if l is None or r is None:
            return None
        return _merge(l + r)
    if isinstance(node, ast.Call) and isinstance(node.func, ast.Name) and node.func.id == "str" and len(node.args) == 1:
        return [("hole", A.unparse(node.args[0]))]
    if consts is not None:
        c = consts(node)
        if c is not None:
            return [c]
    return None


def _merge(parts: List[object]) -> List[object]:
    out: List[object] = []
    for p in parts:
        if isinstance(p, str) and out and isinstance(out[-1], str):
            out[-1] = out[-1] + p
        elif p != "":
            out.append(p)
    return out


def skeleton_text(sk: List[object]) -> str:
    return "".join(p if isinstance(p, str) else "{" + p[1] + "}" for p in sk)
