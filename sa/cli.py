"""Command line: python -m sa.cli check <Cxx> [quick|thorough]
                 python -m sa.cli explain <replay.json>
                 python -m sa.cli rule <RULE-ID>        (debug: run one rule)

Exit codes: 0 held (KNOWN-FINDING lines allowed) / 1 VIOLATION / 2 ANALYSIS-ERROR."""
from __future__ import annotations

import json
import os
import sys
import time
import traceback
from typing import Dict, List

from . import report as R
from .model import AnalysisError

VERIF = R.VERIF


def _run_rules(ctx, rule_ids: List[str]):
    from .rules import RULES

    obs: List[R.Ob] = []
    per_rule: Dict[str, List[R.Ob]] = {}
    errors: List[str] = []
    for rid in rule_ids:
        if rid not in RULES:
            continue  # rule not built (T2) - reported by the caller
        fn, _min, _stmt = RULES[rid]
        try:
            got = fn(ctx)
        except AnalysisError as e:
            errors.append(f"{rid}: {e}")
            got = []
        for o in got:
            assert o.rule == rid, (o.rule, rid)
        per_rule[rid] = got
        obs.extend(got)
    return obs, per_rule, errors


def check(prop: str, tier: str) -> int:
    from .context import Ctx
    from .rules import RULES, PROPERTY_RULES, load_all

    t0 = time.time()
    load_all()
    if prop not in PROPERTY_RULES:
        print(f"ANALYSIS-ERROR property {prop} has no rules (not claimed)")
        return 2
    rule_ids = [r for r in PROPERTY_RULES[prop]]
    built = [r for r in rule_ids if r in RULES]
    not_built = [r for r in rule_ids if r not in RULES]
    ctx = Ctx(tier=tier)
    obs, per_rule, errors = _run_rules(ctx, built)
    from .rules import PROPERTY_SCOPE

    raw_counts = {rid: len(per_rule.get(rid, [])) for rid in built}
    for rid in built:
        scope = PROPERTY_SCOPE.get((prop, rid))
        if scope:
            keep = [o for o in per_rule[rid] if any((o.func.startswith(sfx[3:]) if sfx.startswith("fn:") else ("/" + sfx + ".py") in o.where.split(":")[0]) for sfx in scope)]
            per_rule[rid] = keep
    obs = [o for rid in built for o in per_rule.get(rid, [])]
    audit = R.load_audit()
    known, fixed = R.load_known()
    R.triage(obs, prop, audit, known)

    # controls (checker sanity, never a VIOLATION)
    from . import controls

    control_failures = controls.run(built)
    errors += [f"control failed: {c}" for c in control_failures]

    # vacuity guards
    for rid in built:
        _fn, mn, _ = RULES[rid]
        n = raw_counts.get(rid, 0)
        if n < mn and not any(o.state == "violation" for o in per_rule.get(rid, [])):
            errors.append(f"{rid}: rule went vacuous ({n} instances, {mn} confirmed by hand)")

    selftest_info = None
    if tier == "thorough":
        from . import selftest

        selftest_info = selftest.run(built, jobs=int(os.environ.get("SA_JOBS", "16")))
        errors += [f"self-test: {m}" for m in selftest_info["failures"]]
        # second interpreter / cross-rule consistency are part of the rules themselves (ctx.tier)

    violations = [o for o in obs if o.state == "violation"]
    unresolved = [o for o in obs if o.state == "unresolved"]
    known_obs = [o for o in obs if o.state == "known"]

    out_dir = os.path.join(VERIF, "out", "_eval", f"{prop}_{os.getpid()}") if os.environ.get("SA_NO_EVIDENCE") else os.path.join(VERIF, "out", prop)
    os.makedirs(out_dir, exist_ok=True)
    for f in os.listdir(out_dir):
        if f.endswith(".json"):
            os.remove(os.path.join(out_dir, f))
    lines: List[str] = []
    # one KNOWN-FINDING line per listed finding
    seen_known = set()
    for o in known_obs:
        if o.ident() in seen_known:
            continue
        seen_known.add(o.ident())
        lines.append(f"KNOWN-FINDING: property={prop} {o.rule} {o.func}: {o.reason}")
    for i, o in enumerate(violations):
        path = os.path.join(os.path.relpath(out_dir, VERIF), f"{i}.json")
        json.dump({"property": prop, "obligation": o.__dict__, "tier": tier}, open(os.path.join(VERIF, path), "w"), indent=1)
        lines.append(f"  {o.where} [{o.rule}] {o.func}: {o.detail}")
        for d in o.derivation[:6]:
            lines.append(f"      {d}")
        lines.append(f"VIOLATION property={prop} replay={path}")
    for o in unresolved:
        lines.append(f"ANALYSIS-ERROR {o.where} [{o.rule}] {o.func}: {o.detail}")
    for e in errors:
        lines.append(f"ANALYSIS-ERROR {e}")

    wall = time.time() - t0
    if not os.environ.get("SA_NO_EVIDENCE"):
        _write_evidence(prop, tier, ctx, obs, per_rule, built, not_built, errors, wall, selftest_info, audit)
    summ = R.summarize(obs)
    print(f"[{prop}/{tier}] rules={','.join(built)} obligations={len(obs)} " + " ".join(f"{k}={v}" for k, v in sorted(summ.items())) + f" wall={wall:.2f}s")
    for l in lines:
        print(l)
    if violations:
        return 1
    if unresolved or errors:
        return 2
    return 0


def _write_evidence(prop, tier, ctx, obs, per_rule, built, not_built, errors, wall, selftest_info, audit) -> None:
    from .rules import RULES

    manifest_level = "other"
    keys = {}
    for o in obs:
        keys.setdefault(o.ident(), o)
    nontrivial = [o for o in keys.values() if o.nontrivial]
    discharged = [o for o in obs if o.state in ("ok", "audited")]
    samples = []
    for rid in built:
        for o in per_rule.get(rid, [])[:3]:
            samples.append({"rule": o.rule, "function": o.func, "site": o.key, "where": o.where, "state": o.state, "detail": o.detail, "derivation": o.derivation[:8], "reason": o.reason})
    per_rule_stats = {}
    for rid in built:
        rs = per_rule.get(rid, [])
        per_rule_stats[rid] = {
            "statement": RULES[rid][2],
            "min_instances": RULES[rid][1],
            "instances": len(rs),
            "functions": sorted({o.func for o in rs}),
            **R.summarize(rs),
        }
    expl = (
        f"Static analysis of /repo/numba_scfg (tests excluded; {len(ctx.prog.modules)} modules, {len(ctx.prog.functions)} functions parsed on this run, "
        f"never imported or executed). Rules run for {prop}: {', '.join(built)}"
        + (f" (not built: {', '.join(not_built)})" if not_built else "")
        + ". Each rule instantiates its template over the current source and yields one obligation per instance; an obligation is discharged by the rule's own static argument (ok), "
        "by an entry of audit/exceptions.json (audited, one site each, with reason), or matches known_findings.txt (known). "
        "evaluations = obligations enumerated; distinct_nontrivial = distinct obligation keys whose discharge needed a def-use chain, path query, class-table or type evaluation."
    )
    ev = {
        "property_id": prop,
        "tier": tier,
        "seed": int(os.environ.get("VERIF_SEED", "0") or 0),
        "level": manifest_level,
        "coverage": {
            "explanation": expl,
            "evaluations": len(obs),
            "distinct_nontrivial": len(nontrivial),
            "rule": "one obligation per rule instance found in the current source; key = (rule, function, alpha-normalised site, abstract fact); non-trivial = discharge needed more than a syntactic match",
            "samples": samples,
            "obligations": len(obs),
            "discharged": len(discharged),
            "checker_cmd": f"./check {prop} {tier}",
            "trusted_base": ["CPython ast parser", "sa engine's model of Python semantics for the constructs used", "annotation-derived types", "audit/exceptions.json"],
            "exhaustive": False,
            "per_rule": per_rule_stats,
            "audited": [{"rule": o.rule, "function": o.func, "site": o.key, "reason": o.reason} for o in obs if o.state == "audited"],
            "known": [{"rule": o.rule, "function": o.func, "site": o.key, "what": o.reason} for o in obs if o.state == "known"],
            "unresolved": [{"rule": o.rule, "function": o.func, "site": o.key, "detail": o.detail} for o in obs if o.state == "unresolved"],
            "analysis_errors": errors,
            "modules_analysed": sorted(m.relpath for m in ctx.prog.modules.values()),
            "functions_analysed": len(ctx.prog.functions),
            "notes": ctx.notes,
            "stats": ctx.stats,
            "selftest": selftest_info,
        },
        "assumptions": [
            "the checker's model of Python semantics (first-match if/elif, isinstance vs exact type tests, dataclass field inheritance, insertion-ordered dict, hash-ordered set)",
            "types derived from the library's annotations",
            "the reasons recorded in audit/exceptions.json (arguments about the algorithm the tool does not check)",
        ],
        "wall_s": round(wall, 3),
        "violations": sum(1 for o in obs if o.state == "violation"),
    }
    os.makedirs(os.path.join(VERIF, "evidence"), exist_ok=True)
    json.dump(ev, open(os.path.join(VERIF, "evidence", f"{prop}.json"), "w"), indent=1, default=str)


def explain(path: str) -> int:
    from .context import Ctx
    from .rules import RULES, load_all

    load_all()
    if not os.path.isabs(path):
        path = os.path.join(VERIF, path)
    data = json.load(open(path))
    o = data["obligation"]
    ctx = Ctx(tier="quick")
    fn = RULES[o["rule"]][0]
    got = fn(ctx)
    hits = [g for g in got if g.func == o["func"] and g.key == o["key"]]
    print(f"rule {o['rule']}: {RULES[o['rule']][2]}")
    if not hits:
        print(f"site no longer produces this obligation on the current tree: {o['func']} :: {o['key']}")
        return 0
    for g in hits:
        print(f"{g.where} {g.func}\n  site: {g.key}\n  state: {g.state}\n  {g.detail}")
        for d in g.derivation:
            print("    " + d)
    return 1 if any(g.state == "violation" for g in hits) else 0


def run_rule(rid: str) -> int:
    from .context import Ctx
    from .rules import RULES, load_all

    load_all()
    ctx = Ctx(tier=os.environ.get("VERIF_TIER", "quick"))
    got = RULES[rid][0](ctx)
    audit = R.load_audit()
    known, _ = R.load_known()
    R.triage(got, "", audit, known)
    for g in got:
        print(f"{g.state:10s} {g.where:50s} {g.func:40s} {g.key}\n             {g.detail}")
        if os.environ.get("SA_VERBOSE"):
            for d in g.derivation:
                print("               " + d)
    print(f"{rid}: {len(got)} obligations {R.summarize(got)}")
    return 0


def main(argv: List[str]) -> int:
    try:
        if len(argv) >= 2 and argv[0] == "check":
            tier = argv[2] if len(argv) > 2 else os.environ.get("VERIF_TIER", "quick")
            return check(argv[1], tier)
        if len(argv) == 2 and argv[0] == "explain":
            return explain(argv[1])
        if len(argv) == 2 and argv[0] == "rule":
            return run_rule(argv[1])
        print(__doc__)
        return 2
    except AnalysisError as e:
        print(f"ANALYSIS-ERROR {e}")
        return 2
    except Exception:
        traceback.print_exc()
        print("ANALYSIS-ERROR internal error of the checker (traceback above)")
        return 2


if __name__ == "__main__":
    sys.exit(main(sys.argv[1:]))
