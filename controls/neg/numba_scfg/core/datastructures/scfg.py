"""negative control: the expected-zero rules must stay silent on this file"""
from typing import Set, Dict
from numba_scfg.core.datastructures.basic_block import BasicBlock


class SCFG:
    graph: Dict[str, BasicBlock]

    def fine_write(self, block: BasicBlock) -> None:
        self.graph[block.name] = block.replace_jump_targets(("x",))

    def fine_hash(self) -> None:
        q: Set[str] = set()
        q.update(self.graph.keys())
