from dataclasses import dataclass, replace, field
from typing import Tuple, Dict, Optional


@dataclass(frozen=True)
class BasicBlock:
    name: str
    _jump_targets: Tuple[str, ...] = tuple()
    backedges: Tuple[str, ...] = tuple()

    def replace_jump_targets(self, jump_targets: Tuple[str, ...]) -> "BasicBlock":
        return replace(self, _jump_targets=jump_targets)


@dataclass(frozen=True)
class SyntheticBranch(BasicBlock):
    variable: str = ""
    branch_value_table: Dict[int, str] = field(default_factory=lambda: {})


@dataclass(frozen=True)
class RegionBlock(BasicBlock):
    kind: Optional[str] = None
    header: Optional[str] = None
