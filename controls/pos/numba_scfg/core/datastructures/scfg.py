"""positive control: each expected-zero rule must fire on this file"""
import functools
import random
import os
from typing import Set, Tuple, Dict
from numba_scfg.core.datastructures.basic_block import BasicBlock, replace


class SCFG:
    graph: Dict[str, BasicBlock]

    def bad_write(self, block: BasicBlock) -> None:
        object.__setattr__(block, "_jump_targets", ("x",))
        self.graph[block.name] = replace(block, name="other")

    def bad_hash(self) -> None:
        q: Set[Tuple[str, BasicBlock]] = set()
        q.update(self.graph.items())

    def bad_entropy(self) -> str:
        return str(random.random()) + os.environ.get("X", "") + str(id(self))

    @functools.lru_cache(maxsize=16)
    def bad_memo(self, key: str) -> Dict[str, BasicBlock]:
        return dict(self.graph)

    def bad_default(self, acc: Dict[str, BasicBlock] = {}) -> Dict[str, BasicBlock]:
        acc.update(self.graph)
        return acc
