# finding 13 (LOWER-6 -> C07, C08)
from _util import *
import ast
from numba_scfg import AST2SCFG, SCFG2AST
src = "def f(x):\n    while x:\n        x -= 1\n    return x\n"
try:
    g = AST2SCFG(src); g.restructure(); out = ast.unparse(SCFG2AST(src, g))
except AssertionError:
    verdict(False, "function starting with 'while' dies with AssertionError in find_head")
verdict(True, "round trip ok")
