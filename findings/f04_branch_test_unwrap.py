# finding 4 (DISP-5 -> C07)
from _util import *
import ast
from numba_scfg import AST2SCFG, SCFG2AST
def rt(src):
    g = AST2SCFG(src); g.restructure()
    return ast.unparse(SCFG2AST(src, g))
src1 = "def f(x):\n    if x.real:\n        return 1\n    return 2\n"
src2 = "def f(x):\n    if not x:\n        return 1\n    return 2\n"
out1 = rt(src1)
ok1 = "x.real" in out1
try:
    out2 = rt(src2); ok2 = "not x" in out2
except AttributeError:
    ok2 = False
verdict(ok1 and ok2, f"attribute test kept={ok1}; unary test round-trips={ok2}")
