# finding 3 (STORE-7b -> C08, C07)
from _util import *
from numba_scfg import AST2SCFG
src = """
def f(x, y):
    while x:
        for j in y:
            if j:
                break
            break
    return x
"""
g = AST2SCFG(src)
names = set(g.graph)
bad = [(k, t) for k, b in g.graph.items() for t in b._jump_targets if t not in names]
verdict(not bad, f"dangling targets after prune_empty: {bad}")
