# finding 12 (LOWER-1/2 -> C08) -- known finding, not repaired
from _util import *
import ast
from numba_scfg import AST2SCFG, SCFG2AST
src = "def f(a, b, c):\n    return a() + (b() and c())\n"
g = AST2SCFG(src); g.restructure()
ns = {}
exec(compile(ast.fix_missing_locations(ast.Module([SCFG2AST(src, g)], [])), "<w>", "exec"), ns)
exec(src, ns)
def run(fn):
    log = []
    mk = lambda n: (lambda: (log.append(n), 1)[1])
    fn(mk("a"), mk("b"), mk("c")); return log
o, t = run(ns["f"]), run(ns["transformed_f"])
verdict(o == t, f"call order original={o} transformed={t}")
