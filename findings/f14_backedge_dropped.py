# finding 14 (STORE-4 view -> C14): fixed 44c53f9
# insert_block / insert_block_and_control_blocks copy the *filtered* view
# block.jump_targets (declared back edges removed) and write it back as the
# full _jump_targets: a predecessor with a declared back edge loses that arc,
# and a branching predecessor (exiting latch) gets a corrupt value table.
from _util import *
from numba_scfg.core.datastructures.basic_block import SyntheticExitingLatch
g = SCFG(graph={
    "h": BasicBlock("h", ("a",)),
    "a": BasicBlock("a", ("b", "a"), backedges=("a",)),
    "b": BasicBlock("b", ()),
})
g.insert_SyntheticTail("t", ["a"], ["b"])
ok1 = g.graph["a"]._jump_targets == ("t", "a")
g2 = SCFG(graph={
    "h": BasicBlock("h", ("l",)),
    "l": SyntheticExitingLatch("l", ("x", "h"), backedges=("h",), variable="v", branch_value_table={0: "h", 1: "x"}),
    "x": BasicBlock("x", ()),
})
g2.insert_SyntheticTail("t", ["l"], ["x"])
ok2 = g2.graph["l"].branch_value_table == {0: "h", 1: "t"}
verdict(ok1 and ok2, f"predecessor keeps its declared back edge in _jump_targets: {ok1} ({g.graph['a']._jump_targets}); latch table after insertion: {g2.graph['l'].branch_value_table}")
