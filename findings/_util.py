"""Helpers for the hand-made witnesses (documentation only; no registered
check runs these).  Run with: /venv/bin/python findings/<file>.py
exit 0 = behaviour correct, exit 1 = defect manifests."""
import logging, sys
logging.disable(logging.CRITICAL)
from numba_scfg.core.datastructures.scfg import SCFG
from numba_scfg.core.datastructures.basic_block import BasicBlock, RegionBlock


def make(d):
    g = {str(k): BasicBlock(name=str(k), _jump_targets=tuple(str(x) for x in v)) for k, v in d.items()}
    return SCFG(graph=g)


def all_blocks(scfg, acc=None):
    acc = {} if acc is None else acc
    for k, v in scfg.graph.items():
        acc.setdefault(k, []).append(v)
        if isinstance(v, RegionBlock):
            all_blocks(v.subregion, acc)
    return acc


def dangling(scfg):
    """names used as a target anywhere that exist nowhere in the hierarchy"""
    blocks = all_blocks(scfg)
    bad = []
    for k, vs in blocks.items():
        for v in vs:
            for t in tuple(v._jump_targets) + tuple(v.backedges):
                if t not in blocks:
                    bad.append((k, t))
    return bad


def verdict(ok, msg):
    print(("OK   " if ok else "DEFECT ") + msg)
    sys.exit(0 if ok else 1)
