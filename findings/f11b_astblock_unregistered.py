# finding 11b (DISP-8 -> C15)
from _util import *
from numba_scfg import AST2SCFG
try:
    AST2SCFG("def f(x):\n    return x\n").to_dict()
except TypeError as e:
    verdict(False, f"to_dict of a source-derived graph raised TypeError: {e}")
verdict(True, "written")
