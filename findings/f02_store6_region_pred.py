# finding 2 (STORE-6 -> C04, C01, C16)
from _util import *
g = make({0: (7, 3), 1: (8,), 2: (5, 1), 3: (6, 4), 4: (), 5: (7, 5), 6: (6, 7), 7: (2,), 8: ()})
g.restructure()
bad = dangling(g)
# region targets must equal the targets of the exiting block, recursively
def mism(scfg, acc):
    for k, v in scfg.graph.items():
        if isinstance(v, RegionBlock):
            inner = v.subregion.graph[v.exiting]
            if tuple(inner._jump_targets) != tuple(v._jump_targets) and set(v._jump_targets) != set(inner.jump_targets):
                acc.append((k, v._jump_targets, inner.name, inner._jump_targets))
            mism(v.subregion, acc)
    return acc
mm = mism(g, [])
verdict(not bad and not mm, f"dangling={bad[:3]} region/exiting mismatches={mm[:2]}")
