# findings 7, 8, 11c (ORD-4, ORD-3, DISP-8e -> C15)
from _util import *
g = make({0: (5,), 5: (2, 1), 1: (3,), 2: (3,), 3: (5, 4), 4: ()})
ok_order = True
try:
    d0 = g.to_dict()
    ok_order = d0["edges"]["5"] == ["2", "1"]
except TypeError as e:
    verdict(False, f"to_dict raised {e!r}")
g.restructure()
try:
    d = g.to_dict()
except TypeError as e:
    verdict(False, f"to_dict of a restructured graph raised TypeError: {e}")
try:
    g2, _ = SCFG.from_yaml(g.to_yaml())
except KeyError as e:
    verdict(False, f"from_yaml(to_yaml()) raised KeyError {e}")
verdict(ok_order, f"successor order preserved on write: {ok_order}")
