# finding 17 (LOWER-13 -> C07, C08): a for loop with a tuple target is lowered to 'a, b = None' / 'a, b = next(it, "__scfg_sentinel__")'
from _util import *
import ast
from numba_scfg import AST2SCFG, SCFG2AST

src = "def g(xs):\n    s = 0\n    for a, b in xs:\n        s += a * b\n    return s\n"
try:
    g = AST2SCFG(src); g.restructure()
    out = ast.unparse(SCFG2AST(src, g))
except NotImplementedError:
    verdict(True, "tuple targets are refused")
ns = {}; exec(compile(out, "<rt>", "exec"), ns)
g2 = [v for n, v in ns.items() if not n.startswith("__")][0]
try:
    r = g2([(1, 2), (3, 4)])
except Exception as e:  # noqa
    verdict(False, f"g([(1, 2), (3, 4)]): python 14, round trip raises {type(e).__name__}: {e}")
verdict(r == 14, f"g([(1, 2), (3, 4)]) = {r}")
