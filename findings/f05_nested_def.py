# finding 5 (DISP-3 -> C11)
from _util import *
from numba_scfg import AST2SCFG
src = "def f(x):\n    def g(y):\n        return y\n    return x\n"
try:
    AST2SCFG(src)
except NotImplementedError:
    verdict(True, "nested def refused")
verdict(False, "nested def accepted and inlined")
