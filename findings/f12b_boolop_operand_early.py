# finding 12b (LOWER-2 -> C08) -- known finding, not repaired
from _util import *
import ast
from numba_scfg import AST2SCFG, SCFG2AST
src = "def f(a, b, c):\n    return a() and (b() or c())\n"
g = AST2SCFG(src); g.restructure()
ns = {}
exec(ast.unparse(SCFG2AST(src, g)), ns)
exec(src, ns)
def run(fn):
    log = []
    mk = lambda n, r: (lambda: (log.append(n), r)[1])
    fn(mk("a", 0), mk("b", 1), mk("c", 1)); return log
o, t = run(ns["f"]), run(ns["transformed_f"])
verdict(o == t, f"call order with a() false: original={o} transformed={t}")
