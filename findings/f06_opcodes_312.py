# finding 6 (TABLE-1 -> C09)
from _util import *
from numba_scfg.core.datastructures.byte_flow import ByteFlow
def g(x):
    return 1 if x is None else 2
def h(x):
    if x:
        return 1
try:
    ByteFlow.from_bytecode(g); ByteFlow.from_bytecode(h)
except KeyError as e:
    verdict(False, f"KeyError {e} building the graph of a function with 'is None' / constant return")
verdict(True, "bytecode graphs built")
