# finding 15 (LOWER-13 -> C07, C08): '{target} = None' in the pre-header of a lowered for loop
from _util import *
import ast
from numba_scfg import AST2SCFG, SCFG2AST


def round_trip(src):
    g = AST2SCFG(src); g.restructure()
    out = ast.unparse(SCFG2AST(src, g))
    ns = {}; exec(compile(out, "<rt>", "exec"), ns)
    return [v for k, v in ns.items() if not k.startswith("__")][0]


def run(f, *a):
    try:
        return ("value", f(*a))
    except Exception as e:  # noqa
        return ("raises", type(e).__name__)


src1 = "def f(xs):\n    i = 5\n    for i in xs:\n        z = 1\n    return i\n"
src2 = "def h(xs):\n    for i in xs:\n        z = 1\n    return i\n"
ns = {}; exec(src1 + src2, ns)
bad = []
for src, name in ((src1, "f"), (src2, "h")):
    want, got = run(ns[name], []), run(round_trip(src), [])
    if want != got:
        bad.append(f"{name}([]): python {want}, round trip {got}")
verdict(not bad, "; ".join(bad) or "zero-trip for loops keep the previous binding of the target")
