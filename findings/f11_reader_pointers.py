# finding 11 (DISP-8 -> C15, C04)
from _util import *
g = make({0: (1,), 1: (1, 2), 2: ()})
g.restructure()
try:
    g2, _ = SCFG.from_dict(g.to_dict())
    d2 = g2.to_dict()
except (TypeError, AttributeError) as e:
    verdict(False, f"write-read-write raised {type(e).__name__}: {e}")
bad = [k for k, vs in all_blocks(g2).items() for v in vs if isinstance(v, RegionBlock) and not isinstance(v.parent_region, RegionBlock)]
verdict(not bad, f"regions whose parent_region is not a RegionBlock after reading: {bad}")
