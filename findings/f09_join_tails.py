# finding 9 (TOTAL-1 -> C14)
from _util import *
g = make({"a": ("x", "y", "z"), "x": (), "y": (), "z": ()})
try:
    g.join_tails_and_exits(["a"], ["x", "y", "z"])
except AssertionError:
    verdict(False, "join_tails_and_exits(1 tail, 3 exits) hits assert False")
verdict(True, "joined")
