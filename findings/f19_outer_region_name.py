# finding 19 (DISP-9 -> C15): write - read - write changes the recorded parent_region of the top-level regions
from _util import *
from numba_scfg.core.datastructures.scfg import SCFGIO

s = make({0: (1, 2), 1: (3,), 2: (3,), 3: ()})
s.restructure()
d1 = SCFGIO.to_dict(s)
s2, _ = SCFGIO.from_dict(d1)
d2 = SCFGIO.to_dict(s2)
diff = sorted({(d1["blocks"][k].get("parent_region"), d2["blocks"][k].get("parent_region")) for k in d1["blocks"] if d1["blocks"][k] != d2["blocks"].get(k)})
verdict(d1 == d2, f"writing the re-read graph gives another dictionary: parent_region {diff}" if d1 != d2 else "write-read-write gives the same dictionary")
