# finding 10 (NAME-4 -> C18)
from _util import *
names = ["0", "1", "2", "synth_asign_block_0", "4", "5"]
d = {"blocks": {k: {"type": "basic"} for k in names},
     "edges": {"0": ["1"], "1": ["2"], "2": ["1", "synth_asign_block_0"], "synth_asign_block_0": ["1", "4"], "4": ["5"], "5": []},
     "backedges": {}}
g, _ = SCFG.from_dict(d)
g.restructure_loop()
blk = all_blocks(g)["synth_asign_block_0"]
ok = len(blk) == 1 and type(blk[0]) is BasicBlock
verdict(ok, f"loaded block 'synth_asign_block_0' after restructure_loop: {[type(b).__name__ for b in blk]}")
