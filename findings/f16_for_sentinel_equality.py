# finding 16 (LOWER-13 -> C07, C08): exhaustion of a lowered for loop is recognised by  target != "__scfg_sentinel__"
from _util import *
import ast
from numba_scfg import AST2SCFG, SCFG2AST

src = "def k(xs):\n    s = 0\n    for x in xs:\n        s += 1\n    return s\n"
g = AST2SCFG(src); g.restructure()
out = ast.unparse(SCFG2AST(src, g))
ns = {}; exec(compile(out, "<rt>", "exec"), ns)
k2 = [v for n, v in ns.items() if not n.startswith("__")][0]
ns0 = {}; exec(src, ns0)


class Odd:  # an element whose comparison does not give a bool (numpy arrays behave like this)
    def __ne__(self, other):
        raise TypeError("truth value of a comparison is ambiguous")


bad = []
arg = ["__scfg_sentinel__", 1]
if ns0["k"](arg) != k2(arg):
    bad.append(f"k({arg!r}): python {ns0['k'](arg)}, round trip {k2(arg)}")
try:
    r = k2([Odd(), Odd()])
    if r != 2:
        bad.append(f"elements with a custom __ne__: {r}")
except TypeError as e:
    bad.append(f"elements with a custom __ne__: python 2, round trip raises TypeError({e})")
verdict(not bad, "; ".join(bad) or "the loop ends only when the iterator is exhausted")
