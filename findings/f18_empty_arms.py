# finding 18 (LOWER-14 -> C07, C02): an if statement whose arms are both empty gives a block with two identical successors
from _util import *
import ast
from numba_scfg import AST2SCFG, SCFG2AST

src = "def f(x):\n    if x:\n        pass\n    return x\n"
g = AST2SCFG(src)
dup = [(k, b._jump_targets) for k, b in g.graph.items() if len(b._jump_targets) == 2 and b._jump_targets[0] == b._jump_targets[1]]
try:
    g.restructure()
    out = ast.unparse(SCFG2AST(src, g))
    ns = {}; exec(compile(out, "<rt>", "exec"), ns)
    f2 = [v for n, v in ns.items() if not n.startswith("__")][0]
    okv = f2(0) == 0 and f2(3) == 3
except AssertionError:
    verdict(False, f"'if x: pass' gives a block with successors {dup}; restructuring it dies with AssertionError in extract_region")
verdict(okv and not dup, "'if x: pass' round trips")
