# finding 1 (STORE-5 -> C02, C06, C14, C01)
from _util import *
g = make({0: (1, 3), 1: (5, 4), 2: (1, 5), 3: (2, 4), 4: (), 5: (4,)})
try:
    g.restructure()
except AssertionError as e:
    verdict(False, "restructure() of a closed 6-node CFG aborts with AssertionError in SyntheticBranch.replace_jump_targets")
verdict(True, "restructure() accepted the 6-node CFG")
