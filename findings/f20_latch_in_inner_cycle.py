# finding 20 (STORE-16 / the audited STORE-4 argument -> C02, C01): fixed by the commit recorded in known_findings.txt
# loop_restructure_helper took the single-exiting-latch short cut (declare the back edge on the
# existing latch and return) also for a latch with a third successor inside the loop.  Such a latch
# still lies on an inner cycle (a self-loop, or a path that avoids the header).  Restructuring that
# inner cycle either declares a second back edge on the block (AssertionError in declare_backedge),
# or copies its *filtered* successor view back as the full tuple: the declared arc of the outer loop is
# lost (KeyError later on, or - silently - a successor of the original block is gone).
from _util import *


def run(edges):
    g = SCFG(graph={k: BasicBlock(k, tuple(v)) for k, v in edges.items()})
    try:
        g.restructure()
    except Exception as e:  # noqa: BLE001
        return f"{type(e).__name__}: {e}"
    return None


cases = [
    {"0": ["1"], "1": ["2"], "2": ["3", "2", "1"], "3": []},                      # AssertionError (declare_backedge)
    {"0": ["1"], "1": ["2"], "2": ["3", "4", "1"], "3": [], "4": ["4", "2"]},      # KeyError
    {"0": ["5", "2"], "1": ["4"], "2": ["4"], "3": ["1"], "4": ["5", "2", "3"], "5": []},  # arc lost
]
errs = [run(c) for c in cases]
# third case: no exception on the defective tree, but block 4 keeps only two of its three successors
g = SCFG(graph={k: BasicBlock(k, tuple(v)) for k, v in cases[2].items()})
lost = None
try:
    g.restructure_loop()
    b4 = dict(g)["4"] if "4" in dict(g) else None
    if b4 is not None and len(b4._jump_targets) != 3:
        lost = b4._jump_targets
except Exception as e:  # noqa: BLE001
    lost = f"{type(e).__name__}: {e}"
verdict(not any(errs[:2]) and lost is None, f"restructure() of closed graphs with a three-way latch: {errs[:2]}; successors of block 4 after restructure_loop: {lost or 'all three kept'}")
