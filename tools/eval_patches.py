"""Run every rule on scratch copies of /repo with one patch applied each, and print what is newly
reported relative to the unchanged tree (build-time tool, no registered check uses it).

usage: eval_patches.py <dir> [<dir> ...]     each <dir> holds patch.diff (+ meta.json)
       eval_patches.py --glob '/tmp/r4/B*/out/*'
A patch of kind "benign" (meta.json) that produces any report is a false alarm of the checker;
a breaking patch that produces no violation is a miss."""
import glob, json, os, shutil, subprocess, sys, tempfile
from concurrent.futures import ProcessPoolExecutor

sys.path.insert(0, os.path.dirname(os.path.dirname(os.path.abspath(__file__))))
REPO = os.environ.get("SWEEP_REPO", "/repo")
PKG = "numba_scfg"


def job(args):
    d, base = args
    from sa.rules import RULES, load_all
    load_all()
    from sa.selftest import run_rules_on
    tmp = tempfile.mkdtemp(prefix="evalp_")
    try:
        shutil.copytree(os.path.join(REPO, PKG), os.path.join(tmp, PKG), ignore=shutil.ignore_patterns("__pycache__"))
        r = subprocess.run(["patch", "-p1", "-s", "-i", os.path.join(d, "patch.diff")], cwd=tmp, capture_output=True, text=True)
        if r.returncode != 0:
            return {"dir": d, "apply_error": (r.stdout + r.stderr)[-300:]}
        res = run_rules_on(tmp, sorted(RULES))
        return {
            "dir": d,
            "violations": [v for v in res["violations"] if v not in base["violations"]],
            "unresolved": [v for v in res["unresolved"] if v not in base["unresolved"]],
            "errors": res["errors"],
        }
    finally:
        shutil.rmtree(tmp, ignore_errors=True)


def main():
    args = sys.argv[1:]
    dirs = []
    i = 0
    while i < len(args):
        if args[i] == "--glob":
            dirs += sorted(glob.glob(args[i + 1]))
            i += 2
        else:
            dirs.append(args[i])
            i += 1
    dirs = [d for d in dirs if os.path.exists(os.path.join(d, "patch.diff"))]
    from sa.rules import RULES, load_all
    load_all()
    from sa.selftest import run_rules_on
    b = run_rules_on(REPO, sorted(RULES))
    base = {"violations": set(b["violations"]), "unresolved": set(b["unresolved"])}
    with ProcessPoolExecutor(max_workers=int(os.environ.get("JOBS", "8"))) as ex:
        for row in ex.map(job, [(d, base) for d in dirs]):
            kind = "?"
            try:
                m = json.load(open(os.path.join(row["dir"], "meta.json")))
                kind = m.get("kind") or m.get("property", "?")
            except Exception:
                pass
            if "apply_error" in row:
                print("APPLY-ERROR", row["dir"], row["apply_error"])
                continue
            tag = "SILENT" if not (row["violations"] or row["unresolved"] or row["errors"]) else "REPORTS"
            print(tag, kind, row["dir"])
            for k in ("violations", "unresolved", "errors"):
                for v in row[k][:6]:
                    print("     ", k[:-1], v[:300])


if __name__ == "__main__":
    main()
