"""Benign sweep: behaviour-preserving edits of every library function must leave every rule silent.

Operators (computed on the AST, one function at a time):
  rename   - every local variable of the function (not parameters, not names of nested defs,
             not names declared global / nonlocal, not names read by nested functions) gets a suffix
  log      - a logging call is inserted as the first statement of the function
  reparse  - the whole file is replaced by ast.unparse(ast.parse(file)) (formatting / comments gone)
A variant that makes a rule report a new violation, an unresolved obligation or an analysis
error is printed: it is a false alarm of the checker (build-time tool, no registered check uses it).

usage: benign_sweep.py [--jobs N] [--ops rename,log,reparse] [--files a.py,b.py]"""
import ast, copy, json, os, shutil, sys, tempfile
from concurrent.futures import ProcessPoolExecutor

sys.path.insert(0, os.path.dirname(os.path.dirname(os.path.abspath(__file__))))
REPO = os.environ.get("SWEEP_REPO", "/repo")
PKG = "numba_scfg"


def lib_files():
    out = []
    for dp, dn, fn in os.walk(os.path.join(REPO, PKG)):
        dn[:] = sorted(d for d in dn if d not in ("tests", "__pycache__"))
        for f in sorted(fn):
            if f.endswith(".py") and f != "__init__.py":
                out.append(os.path.relpath(os.path.join(dp, f), os.path.join(REPO, PKG)))
    return out


def functions(tree):
    return [n for n in ast.walk(tree) if isinstance(n, (ast.FunctionDef, ast.AsyncFunctionDef))]


def rename_variant(src, idx):
    tree = ast.parse(src)
    fn = functions(tree)[idx]
    params = {a.arg for a in fn.args.args + fn.args.kwonlyargs + fn.args.posonlyargs}
    if fn.args.vararg:
        params.add(fn.args.vararg.arg)
    if fn.args.kwarg:
        params.add(fn.args.kwarg.arg)
    nested = [n for n in ast.walk(fn) if isinstance(n, (ast.FunctionDef, ast.AsyncFunctionDef, ast.ClassDef, ast.Lambda)) and n is not fn]
    nested_names = {n.name for n in nested if hasattr(n, "name")}
    in_nested = set()
    for n in nested:
        for x in ast.walk(n):
            if isinstance(x, ast.Name):
                in_nested.add(x.id)
    declared = set()
    for x in ast.walk(fn):
        if isinstance(x, (ast.Global, ast.Nonlocal)):
            declared |= set(x.names)
    own = []

    def walk_own(node):
        for ch in ast.iter_child_nodes(node):
            if isinstance(ch, (ast.FunctionDef, ast.AsyncFunctionDef, ast.ClassDef, ast.Lambda)):
                continue
            own.append(ch)
            walk_own(ch)

    walk_own(fn)
    # comprehension variables are their own scope: rename them too (consistently), they are plain Names
    stores = {x.id for x in own if isinstance(x, ast.Name) and isinstance(x.ctx, ast.Store)}
    ren = {s: s + "_rn" for s in stores - params - nested_names - in_nested - declared}
    if not ren:
        return None
    for x in own:
        if isinstance(x, ast.Name) and x.id in ren:
            x.id = ren[x.id]
    return ast.unparse(tree) + "\n", fn.name, fn.lineno


def log_variant(src, idx):
    tree = ast.parse(src)
    fn = functions(tree)[idx]
    stmt = ast.parse("__import__('logging').getLogger(__name__).debug('enter')").body[0]
    pos = 1 if (fn.body and isinstance(fn.body[0], ast.Expr) and isinstance(fn.body[0].value, ast.Constant) and isinstance(fn.body[0].value.value, str)) else 0
    fn.body.insert(pos, stmt)
    ast.fix_missing_locations(tree)
    return ast.unparse(tree) + "\n", fn.name, fn.lineno


def flip_variants(src):
    """if c: A else: B  ->  if not c: B else: A   (one variant per if/else that is not an elif chain)"""
    tree = ast.parse(src)
    ifs = [n for n in ast.walk(tree) if isinstance(n, ast.If) and n.orelse and not (len(n.orelse) == 1 and isinstance(n.orelse[0], ast.If))]
    # skip ifs that are themselves the elif of a parent
    elifs = {id(n.orelse[0]) for n in ast.walk(tree) if isinstance(n, ast.If) and len(n.orelse) == 1 and isinstance(n.orelse[0], ast.If)}
    for k, n in enumerate(ifs):
        if id(n) in elifs:
            continue
        t = copy.deepcopy(tree)
        m = [x for x in ast.walk(t) if isinstance(x, ast.If) and x.orelse and not (len(x.orelse) == 1 and isinstance(x.orelse[0], ast.If))][k]
        m.test = ast.UnaryOp(op=ast.Not(), operand=m.test)
        m.body, m.orelse = m.orelse, m.body
        ast.fix_missing_locations(t)
        yield ast.unparse(t) + "\n", "if@%d" % n.lineno, n.lineno


def aug_variants(src):
    """x += e  ->  x = x + e   (names only)"""
    tree = ast.parse(src)
    augs = [n for n in ast.walk(tree) if isinstance(n, ast.AugAssign) and isinstance(n.target, ast.Name)]
    for k, n in enumerate(augs):
        t = copy.deepcopy(tree)
        m = [x for x in ast.walk(t) if isinstance(x, ast.AugAssign) and isinstance(x.target, ast.Name)][k]
        new = ast.Assign(targets=[ast.Name(id=m.target.id, ctx=ast.Store())], value=ast.BinOp(left=ast.Name(id=m.target.id, ctx=ast.Load()), op=m.op, right=m.value), lineno=m.lineno)
        for par in ast.walk(t):
            for fld in ("body", "orelse", "finalbody"):
                seq = getattr(par, fld, None)
                if isinstance(seq, list) and m in seq:
                    seq[seq.index(m)] = new
        ast.fix_missing_locations(t)
        yield ast.unparse(t) + "\n", "aug@%d" % n.lineno, n.lineno


def guard_variants(src):
    """for ...: <stmts>; if c: BODY        ->  for ...: <stmts>; if not c: continue; BODY   (if is the last statement, no else)
       and the reverse direction is not generated"""
    tree = ast.parse(src)
    loops = [n for n in ast.walk(tree) if isinstance(n, (ast.For, ast.While)) and n.body and isinstance(n.body[-1], ast.If) and not n.body[-1].orelse]
    for k, n in enumerate(loops):
        t = copy.deepcopy(tree)
        m = [x for x in ast.walk(t) if isinstance(x, (ast.For, ast.While)) and x.body and isinstance(x.body[-1], ast.If) and not x.body[-1].orelse][k]
        last = m.body[-1]
        guard = ast.If(test=ast.UnaryOp(op=ast.Not(), operand=last.test), body=[ast.Continue()], orelse=[])
        m.body = m.body[:-1] + [guard] + last.body
        ast.fix_missing_locations(t)
        yield ast.unparse(t) + "\n", "loop@%d" % n.lineno, n.lineno


def elif_variants(src):
    """elif c: X  ->  else: if c: X"""
    tree = ast.parse(src)
    ifs = [n for n in ast.walk(tree) if isinstance(n, ast.If) and len(n.orelse) == 1 and isinstance(n.orelse[0], ast.If)]
    for k, n in enumerate(ifs):
        t = copy.deepcopy(tree)
        m = [x for x in ast.walk(t) if isinstance(x, ast.If) and len(x.orelse) == 1 and isinstance(x.orelse[0], ast.If)][k]
        m.orelse = [ast.Pass(), m.orelse[0]]  # a leading pass makes the unparser print 'else:' + nested if
        ast.fix_missing_locations(t)
        yield ast.unparse(t) + "\n", "elif@%d" % n.lineno, n.lineno



def _variants(src, pick, rewrite, tag):
    """generic: one variant per node selected by pick(tree) -> list of nodes; rewrite(tree_copy, k) edits in place
    and returns True if it applied"""
    tree = ast.parse(src)
    n = len(pick(tree))
    for k in range(n):
        t = ast.parse(src)
        node = pick(t)[k]
        if rewrite(t, node):
            ast.fix_missing_locations(t)
            try:
                yield ast.unparse(t) + "\n", "%s@%d" % (tag, getattr(node, "lineno", 0)), getattr(node, "lineno", 0)
            except Exception:
                continue


def _replace_stmt(tree, old, new_list):
    for par in ast.walk(tree):
        for fld in ("body", "orelse", "finalbody"):
            seq = getattr(par, fld, None)
            if isinstance(seq, list) and old in seq:
                i = seq.index(old)
                seq[i:i + 1] = new_list
                return True
    return False


def cmp_variants(src):
    """a == b -> b == a ; a < b -> b > a  (single comparisons, no constants involved for ==)"""
    flip = {ast.Lt: ast.Gt, ast.Gt: ast.Lt, ast.LtE: ast.GtE, ast.GtE: ast.LtE, ast.Eq: ast.Eq, ast.NotEq: ast.NotEq}

    def pick(t):
        return [n for n in ast.walk(t) if isinstance(n, ast.Compare) and len(n.ops) == 1 and type(n.ops[0]) in flip]

    def rw(t, n):
        n.left, n.comparators[0], n.ops[0] = n.comparators[0], n.left, flip[type(n.ops[0])]()
        return True

    return _variants(src, pick, rw, "cmp")


def temp_variants(src):
    """if COND: ...  ->  cond_tmp = COND; if cond_tmp: ...   (not for elif arms)"""
    def pick(t):
        elifs = {id(n.orelse[0]) for n in ast.walk(t) if isinstance(n, ast.If) and len(n.orelse) == 1 and isinstance(n.orelse[0], ast.If)}
        return [n for n in ast.walk(t) if isinstance(n, ast.If) and id(n) not in elifs and not isinstance(n.test, (ast.Name, ast.Constant))]

    def rw(t, n):
        tmp = ast.Assign(targets=[ast.Name(id="cond_tmp", ctx=ast.Store())], value=n.test, lineno=n.lineno)
        new_if = ast.If(test=ast.Name(id="cond_tmp", ctx=ast.Load()), body=n.body, orelse=n.orelse)
        return _replace_stmt(t, n, [tmp, new_if])

    return _variants(src, pick, rw, "temp")


def comp2loop_variants(src):
    """x = [e for v in it if c]  ->  x = []; for v in it: if c: x.append(e)    (also dict / set comprehensions)"""
    def pick(t):
        return [n for n in ast.walk(t) if isinstance(n, (ast.Assign, ast.AnnAssign)) and isinstance(n.value, (ast.ListComp, ast.SetComp, ast.DictComp)) and len(n.value.generators) == 1
                and isinstance((n.targets[0] if isinstance(n, ast.Assign) else n.target), ast.Name) and (not isinstance(n, ast.Assign) or len(n.targets) == 1)]

    def rw(t, n):
        tgt = (n.targets[0] if isinstance(n, ast.Assign) else n.target).id
        c = n.value
        g = c.generators[0]
        if tgt in {x.id for x in ast.walk(c) if isinstance(x, ast.Name)}:
            return False
        if isinstance(c, ast.ListComp):
            init, add = ast.List(elts=[], ctx=ast.Load()), ast.Expr(ast.Call(ast.Attribute(ast.Name(tgt, ast.Load()), "append", ast.Load()), [c.elt], []))
        elif isinstance(c, ast.SetComp):
            init, add = ast.Call(ast.Name("set", ast.Load()), [], []), ast.Expr(ast.Call(ast.Attribute(ast.Name(tgt, ast.Load()), "add", ast.Load()), [c.elt], []))
        else:
            init, add = ast.Dict(keys=[], values=[]), ast.Assign(targets=[ast.Subscript(ast.Name(tgt, ast.Load()), c.key, ast.Store())], value=c.value, lineno=n.lineno)
        body = [add]
        for cond in reversed(g.ifs):
            body = [ast.If(test=cond, body=body, orelse=[])]
        loop = ast.For(target=g.target, iter=g.iter, body=body, orelse=[], lineno=n.lineno)
        first = ast.Assign(targets=[ast.Name(tgt, ast.Store())], value=init, lineno=n.lineno)
        return _replace_stmt(t, n, [first, loop])

    return _variants(src, pick, rw, "comp2loop")


def whiletrue_variants(src):
    """while X: B  ->  while True: if not X: break; B      (no else clause)"""
    def pick(t):
        return [n for n in ast.walk(t) if isinstance(n, ast.While) and not n.orelse and not (isinstance(n.test, ast.Constant))]

    def rw(t, n):
        g = ast.If(test=ast.UnaryOp(op=ast.Not(), operand=n.test), body=[ast.Break()], orelse=[])
        n.test = ast.Constant(True)
        n.body = [g] + n.body
        return True

    return _variants(src, pick, rw, "whiletrue")


def isinst_variants(src):
    """isinstance(x, (A, B)) -> isinstance(x, A) or isinstance(x, B)"""
    def pick(t):
        return [n for n in ast.walk(t) if isinstance(n, ast.Call) and isinstance(n.func, ast.Name) and n.func.id == "isinstance" and len(n.args) == 2 and isinstance(n.args[1], ast.Tuple) and len(n.args[1].elts) >= 2]

    def rw(t, n):
        parts = [ast.Call(ast.Name("isinstance", ast.Load()), [copy.deepcopy(n.args[0]), e], []) for e in n.args[1].elts]
        new = ast.BoolOp(op=ast.Or(), values=parts)
        for par in ast.walk(t):
            for fld, val in ast.iter_fields(par):
                if val is n:
                    setattr(par, fld, new)
                    return True
                if isinstance(val, list) and n in val:
                    val[val.index(n)] = new
                    return True
        return False

    return _variants(src, pick, rw, "isinst")


def items2keys_variants(src):
    """for k, v in d.items(): B  ->  for k in d: v = d[k]; B"""
    def pick(t):
        return [n for n in ast.walk(t) if isinstance(n, ast.For) and isinstance(n.target, ast.Tuple) and len(n.target.elts) == 2 and all(isinstance(e, ast.Name) for e in n.target.elts)
                and isinstance(n.iter, ast.Call) and isinstance(n.iter.func, ast.Attribute) and n.iter.func.attr == "items" and not n.iter.args and isinstance(n.iter.func.value, (ast.Name, ast.Attribute))]

    def rw(t, n):
        k, v = n.target.elts
        d = n.iter.func.value
        n.target = ast.Name(k.id, ast.Store())
        n.iter = d
        n.body = [ast.Assign(targets=[ast.Name(v.id, ast.Store())], value=ast.Subscript(copy.deepcopy(d), ast.Name(k.id, ast.Load()), ast.Load()), lineno=n.lineno)] + n.body
        return True

    return _variants(src, pick, rw, "items2keys")


def elsewrap_variants(src):
    """if c: ..; return/continue   REST   ->  if c: ..; return  else: REST   (inverse of the guard-clause form)"""
    def pick(t):
        out = []
        for par in ast.walk(t):
            for fld in ("body", "orelse"):
                seq = getattr(par, fld, None)
                if isinstance(seq, list):
                    for i, st in enumerate(seq[:-1]):
                        if isinstance(st, ast.If) and not st.orelse and st.body and isinstance(st.body[-1], (ast.Return, ast.Continue, ast.Raise)):
                            out.append(st)
        return out

    def rw(t, n):
        for par in ast.walk(t):
            for fld in ("body", "orelse"):
                seq = getattr(par, fld, None)
                if isinstance(seq, list) and n in seq:
                    i = seq.index(n)
                    n.orelse = seq[i + 1:]
                    del seq[i + 1:]
                    return bool(n.orelse)
        return False

    return _variants(src, pick, rw, "elsewrap")


def job(args):
    rel, op, name, line, new_src, base = args
    from sa.rules import RULES, load_all
    load_all()
    from sa.selftest import run_rules_on
    tmp = tempfile.mkdtemp(prefix="benign_")
    try:
        shutil.copytree(os.path.join(REPO, PKG), os.path.join(tmp, PKG), ignore=shutil.ignore_patterns("__pycache__", "tests"))
        if isinstance(new_src, dict):
            for r_, s_ in new_src.items():
                open(os.path.join(tmp, PKG, r_), "w").write(s_)
        else:
            open(os.path.join(tmp, PKG, rel), "w").write(new_src)
        res = run_rules_on(tmp, sorted(RULES))
        new_v = [v for v in res["violations"] if v not in base["violations"]]
        new_u = [v for v in res["unresolved"] if v not in base["unresolved"]]
        return {"file": rel, "op": op, "function": name, "line": line, "violations": new_v[:4], "unresolved": new_u[:4], "errors": res["errors"][:3]}
    finally:
        shutil.rmtree(tmp, ignore_errors=True)


def main():
    args = sys.argv[1:]

    def opt(n, d=None):
        return args[args.index(n) + 1] if n in args else d

    jobs = int(opt("--jobs", "12"))
    ops = (opt("--ops", "rename,log,reparse")).split(",")
    files = opt("--files")
    files = files.split(",") if files else lib_files()
    from sa.rules import RULES, load_all
    load_all()
    from sa.selftest import run_rules_on
    b = run_rules_on(REPO, sorted(RULES))
    base = {"violations": set(b["violations"]), "unresolved": set(b["unresolved"])}
    todo = []
    for rel in files:
        src = open(os.path.join(REPO, PKG, rel)).read()
        n = len(functions(ast.parse(src)))
        if "reparse" in ops:
            todo.append((rel, "reparse", "<file>", 0, ast.unparse(ast.parse(src)) + "\n", base))
        if "flip" in ops:
            for new, nm, ln in flip_variants(src):
                todo.append((rel, "flip", nm, ln, new, base))
        if "guard" in ops:
            for new, nm, ln in guard_variants(src):
                todo.append((rel, "guard", nm, ln, new, base))
        if "elif" in ops:
            for new, nm, ln in elif_variants(src):
                todo.append((rel, "elif", nm, ln, new, base))
        if "aug" in ops:
            for new, nm, ln in aug_variants(src):
                todo.append((rel, "aug", nm, ln, new, base))
        for opn, gen in (("cmp", cmp_variants), ("temp", temp_variants), ("comp2loop", comp2loop_variants), ("whiletrue", whiletrue_variants), ("isinst", isinst_variants), ("items2keys", items2keys_variants), ("elsewrap", elsewrap_variants)):
            if opn in ops:
                for new, nm, ln in gen(src):
                    todo.append((rel, opn, nm, ln, new, base))
        for i in range(n):
            if "rename" in ops:
                r = rename_variant(src, i)
                if r:
                    todo.append((rel, "rename", r[1], r[2], r[0], base))
            if "log" in ops:
                r = log_variant(src, i)
                todo.append((rel, "log", r[1], r[2], r[0], base))
    if "privatise" in ops:
        # a function / method is made private (or public) everywhere: def, calls, imports
        srcs = {rel: open(os.path.join(REPO, PKG, rel)).read() for rel in lib_files()}
        trees = {rel: ast.parse(v) for rel, v in srcs.items()}
        names = {}
        for rel, t in trees.items():
            for n in ast.walk(t):
                if isinstance(n, (ast.FunctionDef, ast.AsyncFunctionDef)) and not n.name.startswith("__"):
                    names.setdefault(n.name, []).append((rel, n.lineno))
        only = opt("--only")
        for nm, where in sorted(names.items()):
            if only and nm != only:
                continue
            new = ("_" + nm) if not nm.startswith("_") else nm.lstrip("_")
            if new in names or not new:
                continue
            out = {}
            for rel in srcs:
                t = ast.parse(srcs[rel])
                hit = False
                for n in ast.walk(t):
                    if isinstance(n, (ast.FunctionDef, ast.AsyncFunctionDef)) and n.name == nm:
                        n.name, hit = new, True
                    elif isinstance(n, ast.Name) and n.id == nm:
                        n.id, hit = new, True
                    elif isinstance(n, ast.Attribute) and n.attr == nm:
                        n.attr, hit = new, True
                    elif isinstance(n, ast.alias) and n.name == nm:
                        n.name, hit = new, True
                if hit:
                    out[rel] = ast.unparse(t) + "\n"
            todo.append((where[0][0], "privatise", nm + "->" + new, where[0][1], out, base))
    print(len(todo), "variants", flush=True)
    bad = 0
    with ProcessPoolExecutor(max_workers=jobs) as ex:
        for row in ex.map(job, todo):
            if row["violations"] or row["unresolved"] or row["errors"]:
                bad += 1
                print("FALSE-ALARM", json.dumps(row)[:600], flush=True)
    print("done:", len(todo), "variants,", bad, "with reports")


if __name__ == "__main__":
    main()
