"""Evaluate one seeded change directory (patch.diff, demo.py, meta.json):
 1. in a scratch worktree: tests with the change, demo with / without the change;
 2. apply the patch to /repo, run every claimed quick check, undo the patch.
Usage: eval_seed.py <seed dir> [--thorough]      (build-time tool, not a registered check)"""
import json, os, subprocess, sys, shutil, tempfile

seed = os.path.abspath(sys.argv[1])
patch = os.path.join(seed, "patch.diff")
demo = os.path.join(seed, "demo.py")
PY = "/venv/bin/python"
out = {"seed": seed}

def sh(cmd, cwd=None, env=None, timeout=900):
    r = subprocess.run(cmd, shell=True, cwd=cwd, capture_output=True, text=True, env=env, timeout=timeout)
    return r.returncode, (r.stdout + r.stderr)

wt = tempfile.mkdtemp(prefix="wt_eval_")
shutil.rmtree(wt)
rc, o = sh(f"git -C /repo worktree add -q --detach {wt} HEAD")
assert rc == 0, o
try:
    env = dict(os.environ, PYTHONPATH=wt)
    rc, o = sh(f"timeout 300 {PY} {demo}", cwd=wt, env=env)
    out["demo_without"] = rc
    rc, o = sh(f"git apply {patch}", cwd=wt)
    out["applies"] = rc == 0
    if rc != 0:
        out["apply_error"] = o[-300:]
    else:
        rc, o = sh(f"timeout 300 {PY} {demo}", cwd=wt, env=env)
        out["demo_with"] = rc
        out["demo_with_tail"] = o.strip().splitlines()[-1][:200] if o.strip() else ""
        rc, o = sh(f"timeout 900 {PY} -m pytest -q -p no:cacheprovider numba_scfg", cwd=wt, env=env)
        out["tests_with"] = rc
        out["tests_tail"] = o.strip().splitlines()[-1][:200] if o.strip() else ""
finally:
    sh(f"git -C /repo worktree remove --force {wt}")

# checks: against /repo itself (--in-repo: apply, run, undo) or against a scratch worktree via SA_REPO
in_repo = "--in-repo" in sys.argv
fired = {}
props = [c["property_id"] for c in json.load(open("/verif/MANIFEST.json"))["checks"]]
tier = "thorough" if "--thorough" in sys.argv else "quick"
if in_repo:
    st, o_ = sh("git -C /repo status --porcelain")
    assert o_.strip() == "", "/repo is not clean: " + o_
    target = "/repo"
    rc, o = sh(f"git -C /repo apply {patch}")
    assert rc == 0, o
else:
    target = tempfile.mkdtemp(prefix="wt_chk_")
    shutil.rmtree(target)
    rc, o = sh(f"git -C /repo worktree add -q --detach {target} HEAD")
    assert rc == 0, o
    rc, o = sh(f"git apply {patch}", cwd=target)
    assert rc == 0, o
try:
    env = dict(os.environ, SA_REPO=target, SA_NO_EVIDENCE="1")
    for p in props:
        rc, o = sh(f"./check {p} {tier}", cwd="/verif", env=env)
        if rc != 0:
            rules = sorted({l.split("[")[1].split("]")[0] for l in o.splitlines() if "[" in l and "]" in l and l.startswith("  numba")})
            err_rules = sorted({l.split("[")[1].split("]")[0] for l in o.splitlines() if "[" in l and "]" in l and l.startswith("ANALYSIS")})
            fired[p] = {"exit": rc, "rules": rules, "error_rules": err_rules, "lines": [l for l in o.splitlines() if l.startswith("  numba") or l.startswith("ANALYSIS-ERROR")][:4]}
finally:
    if in_repo:
        sh("git -C /repo checkout -- .")
    else:
        sh(f"git -C /repo worktree remove --force {target}")
out["fired"] = fired
json.dump(out, sys.stdout, indent=1)
print()
