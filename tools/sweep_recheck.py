"""Re-run the current rules on the rows of a sweep whose tests passed (rules evolve during a sweep)."""
import json, os, sys, shutil, tempfile
from concurrent.futures import ProcessPoolExecutor
sys.path.insert(0, "/verif/tools"); sys.path.insert(0, "/verif")
import sweep
src_file, out_file = sys.argv[1], sys.argv[2]
rows = [json.loads(l) for l in open(src_file)]
keep = [r for r in rows if r.get("tests_pass")]
# regenerate the variants deterministically
cache = {}
def variant(r):
    rel = r["file"]
    if rel not in cache:
        cache[rel] = list(sweep.mutants_of(open(os.path.join(sweep.REPO, sweep.PKG, rel)).read()))
    for op, ln, desc, s in cache[rel]:
        if (op, ln, desc) == (r["op"], r["line"], r["desc"]):
            return s
    return None
def job(args):
    r, src = args
    from sa.rules import RULES, load_all; load_all()
    from sa.selftest import run_rules_on
    tmp = tempfile.mkdtemp(prefix="recheck_")
    try:
        shutil.copytree(os.path.join(sweep.REPO, sweep.PKG), os.path.join(tmp, sweep.PKG), ignore=shutil.ignore_patterns("__pycache__", "tests"))
        open(os.path.join(tmp, sweep.PKG, r["file"]), "w").write(src)
        res = run_rules_on(tmp, sorted(RULES))
        r = dict(r)
        r["rules_fired"] = sorted({v.split("|")[0] for v in res["violations"] if v not in BASE})
        r["unresolved"] = len(res["unresolved"]); r["errors"] = res["errors"][:2]
        return r
    finally:
        shutil.rmtree(tmp, ignore_errors=True)
from sa.rules import RULES as _R, load_all as _la; _la()
from sa.selftest import run_rules_on as _run
BASE = set(_run(sweep.REPO, sorted(_R))["violations"])
todo = [(r, variant(r)) for r in keep]
todo = [t for t in todo if t[1]]
with ProcessPoolExecutor(int(os.environ.get("JOBS", "4"))) as ex, open(out_file, "w") as fh:
    for r in ex.map(job, todo):
        fh.write(json.dumps(r) + "\n")
print(len(todo), "rechecked")
