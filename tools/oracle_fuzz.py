"""Dynamic triage oracle (build-time only, never part of a registered check):
random closed CFGs through every stage with the path-preservation checker
(tools/oracles/c01_checker.py, written by an independent sub-agent for C01),
plus hierarchy consistency, payload conservation, iteration and round trips.
exit 0 = nothing observed, exit 1 = a behavioural difference / crash."""
import logging, os, random, sys
logging.disable(logging.CRITICAL)
sys.path.insert(0, os.path.join(os.path.dirname(os.path.abspath(__file__)), "oracles"))
from c01_checker import Violation, FlatWalker, RegionWalker, check_walk, _all_blocks
from numba_scfg.core.datastructures.scfg import SCFG
from numba_scfg.core.datastructures.basic_block import BasicBlock, PythonBytecodeBlock, RegionBlock, SyntheticBlock


def gen(rng, n):
    while True:
        names = [str(i) for i in range(n)]
        edges = {}
        for i, a in enumerate(names):
            k = rng.choice([0, 1, 1, 2, 2, 2] + ([3, 3] if os.environ.get("FUZZ_K3") else [])) if i else rng.choice([1, 2])
            cands = names[1:]
            if rng.random() < (0.5 if os.environ.get("FUZZ_K3") else 0.85):
                cands = [c for c in cands if c != a]
            k = min(k, len(cands))
            edges[a] = rng.sample(cands, k)
        seen = {"0"}; st = ["0"]
        while st:
            x = st.pop()
            for y in edges[x]:
                if y not in seen:
                    seen.add(y); st.append(y)
        if len(seen) != n:
            continue
        exits = {x for x in names if not edges[x]}
        if not exits:
            continue
        can = set(exits); ch = True
        while ch:
            ch = False
            for x in names:
                if x not in can and any(y in can for y in edges[x]):
                    can.add(x); ch = True
        if len(can) != n:
            continue
        return edges


FIXED = [
    {"0": ["1", "3"], "1": ["5", "4"], "2": ["1", "5"], "3": ["2", "4"], "4": [], "5": ["4"]},
    {"0": ["7", "3"], "1": ["8"], "2": ["5", "1"], "3": ["6", "4"], "4": [], "5": ["7", "5"], "6": ["6", "7"], "7": ["2"], "8": []},
    {"0": ["1", "2"], "1": ["1", "3"], "2": ["3", "4"], "3": ["4"], "4": []},
    {"0": ["1"], "1": ["2"], "2": ["3", "4"], "3": ["5"], "4": ["5"], "5": ["1", "6"], "6": []},
    {"0": ["2"], "1": ["2", "3"], "2": ["1", "3"], "3": []},
    {"0": ["1", "2"], "1": ["3"], "3": ["3", "2"], "2": ["1", "4"], "4": []},
]


def consistency(scfg, label):
    blocks = _all_blocks(scfg)
    def rec(g, parent):
        for k, v in g.graph.items():
            if v.name != k:
                raise Violation(f"[{label}] key {k} holds block named {v.name}")
            for t in tuple(v._jump_targets) + tuple(v.backedges):
                if t not in blocks:
                    raise Violation(f"[{label}] {k} targets unknown {t}")
            for b in v.backedges:
                if b not in v._jump_targets:
                    raise Violation(f"[{label}] {k}: back edge {b} not among its targets {v._jump_targets}")
            if isinstance(v, RegionBlock):
                # regions are frozen and get replaced by copies when re-targeted: pointers are compared by name
                if getattr(v.parent_region, "name", None) != parent.name or not isinstance(v.parent_region, RegionBlock):
                    raise Violation(f"[{label}] region {k}: parent pointer is {getattr(v.parent_region, 'name', v.parent_region)}, contained in {parent.name}")
                if getattr(v.subregion.region, "name", None) != v.name:
                    raise Violation(f"[{label}] region {k}: sub-graph back pointer names {getattr(v.subregion.region, 'name', None)}")
                if v.header not in v.subregion.graph or v.exiting not in v.subregion.graph:
                    raise Violation(f"[{label}] region {k}: header/exiting not inside")
                inner = v.subregion.graph[v.exiting]
                if tuple(inner.jump_targets) != tuple(v.jump_targets) and set(inner.jump_targets) != set(v.jump_targets):
                    raise Violation(f"[{label}] region {k} targets {v._jump_targets} != exiting block targets {inner._jump_targets}")
                rec(v.subregion, v)
    rec(scfg, scfg.region)
    # iteration: every block exactly once, head first
    names = [n for n, _ in scfg]
    if sorted(names) != sorted(blocks):
        raise Violation(f"[{label}] iteration yields {sorted(names)} but hierarchy holds {sorted(blocks)}")
    if names and names[0] != scfg.find_head():
        raise Violation(f"[{label}] iteration does not start with the head")
    def view(g):
        vs = list(g.concealed_region_view)
        if sorted(vs) != sorted(g.graph):
            raise Violation(f"[{label}] concealed view yields {vs}, graph has {list(g.graph)}")
        for v in g.graph.values():
            if isinstance(v, RegionBlock):
                view(v.subregion)
    view(scfg)


def norm(d):
    import copy
    d = copy.deepcopy(d)
    for b in d["blocks"].values():
        if str(b.get("parent_region", "")).startswith("meta_region"):
            b["parent_region"] = "meta"
    return d


def one(edges, payload):
    if payload:
        graph = {n: PythonBytecodeBlock(name=n, _jump_targets=tuple(s), begin=10 * i, end=10 * i + 8) for i, (n, s) in enumerate(edges.items())}
    else:
        graph = {n: BasicBlock(name=n, _jump_targets=tuple(s)) for n, s in edges.items()}
    originals = dict(graph)
    scfg = SCFG(graph)
    for stage in ("join_returns", "restructure_loop", "restructure_branch"):
        getattr(scfg, stage)()
        check_walk(edges, FlatWalker(scfg), f"{stage}, by name")
        check_walk(edges, RegionWalker(scfg), f"{stage}, by region")
        consistency(scfg, stage)
        blocks = _all_blocks(scfg)
        for n, ob in originals.items():
            nb = blocks.get(n)
            if nb is None or type(nb) is not type(ob):
                raise Violation(f"[{stage}] original block {n} lost or retyped")
            if payload and (nb.begin, nb.end) != (ob.begin, ob.end):
                raise Violation(f"[{stage}] payload of {n} changed")
        for n, b in blocks.items():
            if n not in originals and not isinstance(b, (SyntheticBlock, RegionBlock)):
                raise Violation(f"[{stage}] new block {n} is a {type(b).__name__}")
        # serialisation round trip
        d1 = scfg.to_dict()
        s2, _ = SCFG.from_dict(d1)
        d2 = s2.to_dict()
        if norm(d1) != norm(d2):
            raise Violation(f"[{stage}] dict round trip differs")
        s3, _ = SCFG.from_yaml(scfg.to_yaml())
        if norm(s3.to_dict()) != norm(d1):
            raise Violation(f"[{stage}] yaml round trip differs")
        consistency(s2, stage + " reloaded")
        if stage == "restructure_loop":
            s2.restructure_branch()
            check_walk(edges, FlatWalker(s2), "reload between stages, by name")
            consistency(s2, "reload between stages")


def main():
    n = int(os.environ.get("FUZZ_N", "140"))
    cases = list(FIXED)
    off = int(os.environ.get("FUZZ_OFF", "0"))
    for s in range(off, off + n):
        rng = random.Random(s)
        cases.append(gen(rng, rng.randint(3, int(os.environ.get("FUZZ_MAX", "9")))))
    for i, e in enumerate(cases):
        try:
            one(e, payload=(i % 2 == 0))
        except Violation as v:
            print("FUZZ-VIOLATION", e, v)
            return 1
        except Exception as ex:
            print("FUZZ-ERROR", e, type(ex).__name__, ex)
            return 1
    print("fuzz ok", len(cases))
    return 0


if __name__ == "__main__":
    sys.exit(main())
