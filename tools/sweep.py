"""Mutation sweep of the library: evaluate the checker against systematic single edits.

For every generated variant (one small AST-level edit of one library file):
  rules   - which rules report a NEW violation / unresolved / analysis error
  tests   - does the pinned test suite still pass
  oracle  - do the behavioural demos / fuzz harness (dynamic; triage only) notice a change
Interesting rows:
  tests pass & oracle fails & rules silent   -> a real gap of the static rules
  tests pass & oracle passes & rules fire    -> candidate false alarm (or an oracle too weak)
This is a build-time tool (it executes the library); no registered check uses it.

usage: sweep.py [--files a.py,b.py] [--limit N] [--jobs N] [--out FILE] [--demos DIR[,DIR]]"""
import ast, copy, json, os, random, shutil, subprocess, sys, tempfile, time
from concurrent.futures import ProcessPoolExecutor

sys.path.insert(0, os.path.dirname(os.path.dirname(os.path.abspath(__file__))))
REPO = os.environ.get("SWEEP_REPO", "/repo")
PKG = "numba_scfg"
PY = "/venv/bin/python"


def lib_files():
    out = []
    for dp, dn, fn in os.walk(os.path.join(REPO, PKG)):
        dn[:] = sorted(d for d in dn if d not in ("tests", "__pycache__"))
        for f in sorted(fn):
            if f.endswith(".py") and f != "__init__.py":
                out.append(os.path.relpath(os.path.join(dp, f), os.path.join(REPO, PKG)))
    return out


# ------------------------------------------------------------------ mutation operators

CMP_SWAP = {ast.Eq: ast.NotEq, ast.NotEq: ast.Eq, ast.Lt: ast.LtE, ast.LtE: ast.Lt, ast.Gt: ast.GtE, ast.GtE: ast.Gt,
            ast.In: ast.NotIn, ast.NotIn: ast.In, ast.Is: ast.IsNot, ast.IsNot: ast.Is}


def mutants_of(src):
    """yield (op, lineno, description, new_source)"""
    tree = ast.parse(src)
    nodes = list(ast.walk(tree))
    # assign ids
    for i, n in enumerate(nodes):
        n._mid = i

    def variant(edit):
        t = copy.deepcopy(tree)
        idx = {getattr(n, "_mid", None): n for n in ast.walk(t)}
        if edit(idx) is False:
            return None
        try:
            ast.fix_missing_locations(t)
            return ast.unparse(t) + "\n"
        except Exception:
            return None

    def in_function(n):
        return getattr(n, "_infn", False)

    for fn in [n for n in nodes if isinstance(n, (ast.FunctionDef, ast.AsyncFunctionDef))]:
        for sub in ast.walk(fn):
            sub._infn = True

    for n in nodes:
        if not in_function(n):
            continue
        ln = getattr(n, "lineno", 0)
        # statement deletion
        if isinstance(n, (ast.Expr, ast.Assign, ast.AugAssign)) and not (isinstance(n, ast.Expr) and isinstance(n.value, ast.Constant)):
            def e(idx, mid=n._mid):
                tgt = idx[mid]
                for par in ast.walk(idx[0]):
                    for fld in ("body", "orelse", "finalbody"):
                        seq = getattr(par, fld, None)
                        if isinstance(seq, list) and tgt in seq:
                            seq[seq.index(tgt)] = ast.Pass()
                            return True
                return False
            s = variant(e)
            if s:
                yield "del-stmt", ln, ast.unparse(n)[:70], s
        # condition negation
        if isinstance(n, (ast.If, ast.While)) and not (isinstance(n.test, ast.Constant)):
            def e(idx, mid=n._mid):
                t = idx[mid]
                t.test = ast.UnaryOp(op=ast.Not(), operand=t.test)
            s = variant(e)
            if s:
                yield "neg-cond", ln, ast.unparse(n.test)[:70], s
        # comparison operator swap
        if isinstance(n, ast.Compare) and len(n.ops) == 1 and type(n.ops[0]) in CMP_SWAP:
            def e(idx, mid=n._mid):
                t = idx[mid]
                t.ops = [CMP_SWAP[type(t.ops[0])]()]
            s = variant(e)
            if s:
                yield "cmp-swap", ln, ast.unparse(n)[:70], s
        # and <-> or
        if isinstance(n, ast.BoolOp):
            def e(idx, mid=n._mid):
                t = idx[mid]
                t.op = ast.Or() if isinstance(t.op, ast.And) else ast.And()
            s = variant(e)
            if s:
                yield "bool-swap", ln, ast.unparse(n)[:70], s
        # swap first two positional arguments
        if isinstance(n, ast.Call) and len(n.args) >= 2 and not any(isinstance(a, ast.Starred) for a in n.args[:2]) and ast.unparse(n.args[0]) != ast.unparse(n.args[1]):
            def e(idx, mid=n._mid):
                t = idx[mid]
                t.args[0], t.args[1] = t.args[1], t.args[0]
            s = variant(e)
            if s:
                yield "arg-swap", ln, ast.unparse(n)[:70], s
        # integer constant +1
        if isinstance(n, ast.Constant) and isinstance(n.value, int) and not isinstance(n.value, bool) and n.value in (0, 1, 2, -1):
            def e(idx, mid=n._mid):
                t = idx[mid]
                t.value = t.value + 1
            s = variant(e)
            if s:
                yield "const+1", ln, str(n.value), s
        # drop sorted()/tuple()/list() wrapper
        if isinstance(n, ast.Call) and isinstance(n.func, ast.Name) and n.func.id in ("sorted",) and len(n.args) == 1 and not n.keywords:
            def e(idx, mid=n._mid):
                t = idx[mid]
                t.func = ast.Name(id="list", ctx=ast.Load())
            s = variant(e)
            if s:
                yield "unsort", ln, ast.unparse(n)[:70], s
        # continue <-> break
        if isinstance(n, (ast.Continue, ast.Break)):
            def e(idx, mid=n._mid):
                t = idx[mid]
                new = ast.Break() if isinstance(t, ast.Continue) else ast.Continue()
                for par in ast.walk(idx[0]):
                    for fld in ("body", "orelse", "finalbody"):
                        seq = getattr(par, fld, None)
                        if isinstance(seq, list) and t in seq:
                            seq[seq.index(t)] = new
                            return True
                return False
            s = variant(e)
            if s:
                yield "brk-cont", ln, type(n).__name__, s
        # name swap: replace a loaded local name by another local of the same function used nearby
        if isinstance(n, ast.Attribute) and n.attr in ("jump_targets", "_jump_targets") and isinstance(n.ctx, ast.Load):
            def e(idx, mid=n._mid):
                t = idx[mid]
                t.attr = "_jump_targets" if t.attr == "jump_targets" else "jump_targets"
            s = variant(e)
            if s:
                yield "view-swap", ln, ast.unparse(n)[:70], s
        # subscript index tweak: x[0] <-> x[1], x[-1] -> x[0]
        if isinstance(n, ast.Subscript) and isinstance(n.slice, ast.Constant) and isinstance(n.slice.value, int) and isinstance(n.ctx, ast.Load):
            def e(idx, mid=n._mid):
                t = idx[mid]
                t.slice = ast.Constant(value={0: 1, 1: 0, -1: 0}.get(t.slice.value, t.slice.value + 1))
            s = variant(e)
            if s:
                yield "idx-tweak", ln, ast.unparse(n)[:70], s


# ------------------------------------------------------------------ evaluation


def run(cmd, cwd=None, env=None, timeout=300):
    try:
        r = subprocess.run(cmd, cwd=cwd, env=env, capture_output=True, text=True, timeout=timeout)
        return r.returncode, (r.stdout + r.stderr)
    except subprocess.TimeoutExpired:
        return 124, "timeout"


def evaluate(job):
    rel, op, ln, desc, new_src, demos, base_viol = job
    tmp = tempfile.mkdtemp(prefix="sweep_")
    row = {"file": rel, "op": op, "line": ln, "desc": desc}
    try:
        shutil.copytree(os.path.join(REPO, PKG), os.path.join(tmp, PKG), ignore=shutil.ignore_patterns("__pycache__"))
        open(os.path.join(tmp, PKG, rel), "w").write(new_src)
        env = dict(os.environ, PYTHONPATH=tmp, SA_REPO=tmp, PYTHONHASHSEED="0")
        # import check
        rc, o = run([PY, "-c", "import numba_scfg, numba_scfg.rendering.rendering, numba_scfg.core.datastructures.byte_flow"], env=env, timeout=60)
        row["imports"] = rc == 0
        # rules
        code = (
            "import sys, json; sys.path.insert(0, '/verif')\n"
            "from sa.rules import RULES, load_all; load_all()\n"
            "from sa.selftest import run_rules_on\n"
            f"r = run_rules_on({tmp!r}, sorted(RULES))\n"
            "print('@@' + json.dumps(r))\n"
        )
        rc, o = run([PY, "-c", code], timeout=300)
        try:
            res = json.loads(o[o.index("@@") + 2:].splitlines()[0])
            new_v = [v for v in res["violations"] if v not in base_viol]
            row["rules_fired"] = sorted({v.split("|")[0] for v in new_v})
            row["rule_keys"] = new_v[:4]
            row["unresolved"] = len(res["unresolved"])
            row["errors"] = res["errors"][:2]
        except Exception:
            row["rules_fired"] = ["<checker crashed>"]
            row["errors"] = [o[-300:]]
        if not row["imports"]:
            return row
        # tests
        rc, o = run([PY, "-m", "pytest", "-q", "-x", "-p", "no:cacheprovider", "--timeout=60", PKG], cwd=tmp, env=env, timeout=400)
        row["tests_pass"] = rc == 0
        if rc != 0:
            return row  # the oracle matters only for variants the suite does not catch
        # oracle: demos
        failed = []
        for d in demos:
            rc, o = run([PY, os.path.join(d, "demo.py")], cwd=tmp, env=env, timeout=40)
            if rc != 0:
                failed.append(os.path.basename(os.path.dirname(d)) + "/" + os.path.basename(d))
        row["demos_failed"] = failed
        # oracle: fuzz
        rc, o = run([PY, "/verif/tools/oracle_fuzz.py"], cwd=tmp, env=env, timeout=120)
        row["fuzz"] = "ok" if rc == 0 else (o.strip().splitlines()[-1][:200] if o.strip() else f"rc={rc}")
        return row
    finally:
        shutil.rmtree(tmp, ignore_errors=True)


def main():
    args = sys.argv[1:]
    def opt(name, default=None):
        return args[args.index(name) + 1] if name in args else default
    files = opt("--files")
    files = files.split(",") if files else lib_files()
    limit = int(opt("--limit", "100000"))
    jobs = int(opt("--jobs", "12"))
    out = opt("--out", "/tmp/sweep.jsonl")
    demo_dirs = (opt("--demos", "/verif/seeded") or "").split(",")
    demos = []
    for dd in demo_dirs:
        if os.path.isdir(dd):
            for n in sorted(os.listdir(dd)):
                if os.path.exists(os.path.join(dd, n, "demo.py")):
                    demos.append(os.path.join(dd, n))
    from sa.rules import RULES, load_all
    load_all()
    from sa.selftest import run_rules_on
    base = run_rules_on(REPO, sorted(RULES))
    base_viol = set(base["violations"])
    todo = []
    for rel in files:
        src = open(os.path.join(REPO, PKG, rel)).read()
        ms = list(mutants_of(src))
        for op, ln, desc, s in ms:
            todo.append((rel, op, ln, desc, s, demos, list(base_viol)))
    random.Random(1).shuffle(todo)
    todo = todo[:limit]
    print(len(todo), "variants,", len(demos), "demos", flush=True)
    t0 = time.time()
    with open(out, "w") as fh, ProcessPoolExecutor(max_workers=jobs) as ex:
        for i, row in enumerate(ex.map(evaluate, todo)):
            fh.write(json.dumps(row) + "\n")
            fh.flush()
            if i % 25 == 0:
                print(i, f"{time.time() - t0:.0f}s", flush=True)
    print("done", f"{time.time() - t0:.0f}s")


if __name__ == "__main__":
    main()
