"""Copy confirmed seeded changes from a staging dir into /verif/seeded/<id>/ and record what was run.
Usage: keep_seeds.py /tmp/seeds [--in-repo]"""
import json, os, shutil, subprocess, sys
src = sys.argv[1]
extra = [a for a in sys.argv[2:] if a.startswith("--") and not a.startswith("--tag=")]
tag = next((a.split("=",1)[1] for a in sys.argv[2:] if a.startswith("--tag=")), "")
out_root = "/verif/seeded"
os.makedirs(out_root, exist_ok=True)
summary = {}
for prop in sorted(os.listdir(src)):
    pd = os.path.join(src, prop)
    if not (os.path.isdir(pd) and prop.startswith("C")):
        continue
    for n in sorted(os.listdir(pd)):
        d = os.path.join(pd, n)
        if not (n.isdigit() and os.path.exists(os.path.join(d, "patch.diff")) and os.path.exists(os.path.join(d, "demo.py"))):
            continue
        sid = f"{prop}-{tag}{n}"
        r = subprocess.run(["/venv/bin/python", "/verif/tools/eval_seed.py", d] + extra, capture_output=True, text=True)
        try:
            ev = json.loads(r.stdout[r.stdout.index("{"):])
        except Exception:
            print(sid, "evaluation failed", r.stdout[-300:], r.stderr[-300:]); continue
        ok = ev.get("applies") and ev.get("demo_without") == 0 and ev.get("demo_with") not in (0, None) and ev.get("tests_with") == 0
        meta = {}
        mp = os.path.join(d, "meta.json")
        if os.path.exists(mp):
            try: meta = json.load(open(mp))
            except Exception: meta = {}
        meta.setdefault("property", prop)
        meta["id"] = sid
        meta["confirmed"] = {
            "applies_cleanly": ev.get("applies"), "demo_exit_without_change": ev.get("demo_without"),
            "demo_exit_with_change": ev.get("demo_with"), "demo_tail_with_change": ev.get("demo_with_tail"),
            "tests_exit_with_change": ev.get("tests_with"), "tests_tail": ev.get("tests_tail"),
            "what_was_run": "scratch git worktree of /repo HEAD: demo.py on the clean tree; git apply patch.diff; demo.py; pinned pytest command; then every claimed ./check <Cxx> quick against the patched tree" + (" (patch applied to /repo itself and undone)" if "--in-repo" in extra else " (scratch worktree via SA_REPO)"),
        }
        meta["detected_by"] = {k: {"exit": v["exit"], "rules": v["rules"], "first_line": (v["lines"] or [""])[0][:300]} for k, v in ev.get("fired", {}).items()}
        meta["kept"] = bool(ok)
        if ok:
            dst = os.path.join(out_root, sid)
            os.makedirs(dst, exist_ok=True)
            shutil.copyfile(os.path.join(d, "patch.diff"), os.path.join(dst, "patch.diff"))
            shutil.copyfile(os.path.join(d, "demo.py"), os.path.join(dst, "demo.py"))
            json.dump(meta, open(os.path.join(dst, "meta.json"), "w"), indent=1)
        summary[sid] = {"kept": bool(ok), "detected": {k: v["rules"] for k, v in ev.get("fired", {}).items() if v["exit"] == 1}, "analysis_error_only": [k for k, v in ev.get("fired", {}).items() if v["exit"] == 2]}
        print(sid, "kept" if ok else "REJECTED", summary[sid]["detected"] or "NOT DETECTED", flush=True)
sp = os.path.join(out_root, f"SUMMARY{("-" + tag.strip("-")) if tag else ""}.json")
merged = {}
if os.path.exists(sp):
    try: merged = json.load(open(sp))
    except Exception: merged = {}
merged.update(summary)
json.dump(dict(sorted(merged.items())), open(sp, "w"), indent=1)
