"""Run the pinned test suite against every breaking variant (catalogue build time only;
not part of any registered check).  Writes mutants/tests_status.json."""
import json, os, shutil, subprocess, sys, tempfile
from concurrent.futures import ThreadPoolExecutor
sys.path.insert(0, os.path.dirname(os.path.dirname(os.path.abspath(__file__))))
from sa.mutants import MUTANTS
from sa.selftest import _rename_locals

def one(m):
    tmp = tempfile.mkdtemp(prefix="sa_mtest_")
    try:
        shutil.copytree("/repo/numba_scfg", os.path.join(tmp, "numba_scfg"), ignore=shutil.ignore_patterns("__pycache__"))
        path = os.path.join(tmp, "numba_scfg", m["file"])
        src = open(path).read()
        if m["old"] is None:
            new = _rename_locals(src, "loop_restructure_helper")
        else:
            if src.count(m["old"]) != 1:
                return m["id"], "anchor-missing"
            new = src.replace(m["old"], m["new"])
        open(path, "w").write(new)
        r = subprocess.run(["/venv/bin/python", "-m", "pytest", "-q", "-p", "no:cacheprovider", "-x", "--timeout=600", "numba_scfg"], cwd=tmp, capture_output=True, text=True, env=dict(os.environ, PYTHONPATH=tmp))
        tail = r.stdout.strip().splitlines()[-1] if r.stdout.strip() else r.stderr[-200:]
        return m["id"], ("pass" if r.returncode == 0 else "fail") + ": " + tail
    finally:
        shutil.rmtree(tmp, ignore_errors=True)

with ThreadPoolExecutor(8) as ex:
    res = dict(ex.map(one, MUTANTS))
os.makedirs("/verif/mutants", exist_ok=True)
json.dump(res, open("/verif/mutants/tests_status.json", "w"), indent=1)
print(sum(v.startswith("pass") for v in res.values()), "of", len(res), "variants pass the test suite")
for k, v in res.items():
    if not v.startswith("pass"): print(k, v)
