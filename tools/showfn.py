"""print a function of the loaded (normalised) program:  showfn.py <name> [--loop]"""
import sys, ast, os
sys.path.insert(0, os.path.join(os.path.dirname(__file__), ".."))
from sa.model import Program
from sa.rules.common import loop_form, expanded_function

prog = Program(os.environ.get("SA_REPO", "/repo"))
name = sys.argv[1]
f = prog.find_function(name)
if f is None and "." in name:
    c, m = name.split(".", 1)
    f = prog.cls(c).find_method(m)
if f is None:
    sys.exit("not found")
print(ast.unparse(f.node))
if "--loop" in sys.argv:
    print("---- loop form"); print(ast.unparse(loop_form(f).node))
if "--exp" in sys.argv:
    class Ctx: pass
    c = Ctx(); c.prog = prog
    print("---- expanded"); print(ast.unparse(expanded_function(c, f)))
