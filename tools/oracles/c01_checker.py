"""Path-preservation checker for numba_scfg restructuring (property C01)."""
import logging
logging.disable(logging.CRITICAL)
from collections import deque
from numba_scfg.core.datastructures.scfg import SCFG
from numba_scfg.core.datastructures.basic_block import (
    BasicBlock, RegionBlock, SyntheticBlock, SyntheticAssignment,
    SyntheticBranch,
)


class Violation(Exception):
    pass


def build(edges):
    """edges: dict name -> list of successor names (ordered)."""
    graph = {n: BasicBlock(name=n, _jump_targets=tuple(s)) for n, s in edges.items()}
    return SCFG(graph)


def _all_blocks(scfg, acc=None):
    acc = {} if acc is None else acc
    for name, blk in scfg.graph.items():
        if name in acc:
            raise Violation(f"duplicate block name {name}")
        acc[name] = blk
        if isinstance(blk, RegionBlock):
            _all_blocks(blk.subregion, acc)
    return acc


def _synth_next(blk, env):
    """Return (target or None for stop, new env) for a synthetic block."""
    if isinstance(blk, SyntheticAssignment):
        env = dict(env)
        env.update(blk.variable_assignment)
    if isinstance(blk, SyntheticBranch):
        if blk.variable not in env:
            raise Violation(f"{blk.name} branches on control variable {blk.variable}, which no assignment block on this path has set (env {env})")
        val = env[blk.variable]
        if val not in blk.branch_value_table:
            raise Violation(f"{blk.name}: value {val} of {blk.variable} not in table {blk.branch_value_table}")
        tgt = blk.branch_value_table[val]
        if tgt not in blk._jump_targets:
            raise Violation(f"{blk.name}: table target {tgt} not among jump targets {blk._jump_targets}")
        return tgt, env
    jts = blk._jump_targets
    if len(jts) == 0:
        return None, env
    if len(jts) > 1:
        raise Violation(f"synthetic {blk.name} has several targets {jts} but no control variable")
    return jts[0], env


class FlatWalker:
    """Follow every block's own jump targets by name."""

    def __init__(self, scfg):
        self.blocks = _all_blocks(scfg)
        self.scfg = scfg

    def start(self):
        return self.scfg.find_head()

    def settle(self, pos):
        name = pos
        seen = 0
        while True:
            if name not in self.blocks:
                raise Violation(f"jump to unknown block {name}")
            blk = self.blocks[name]
            if not isinstance(blk, RegionBlock):
                return name
            name = blk.header
            seen += 1
            if seen > 1000:
                raise Violation("region header cycle")

    def block(self, pos):
        return self.blocks[pos]

    def goto(self, pos, target):
        return self.settle(target)


class RegionWalker:
    """Walk region by region using header / exiting / declared targets."""

    def __init__(self, scfg):
        self.scfg = scfg

    def _graph(self, stack):
        return stack[-1].subregion.graph if stack else self.scfg.graph

    def start(self):
        return ((), self.scfg.find_head())

    def settle(self, pos):
        stack, name = pos
        stack = list(stack)
        n = 0
        while True:
            g = self._graph(stack)
            if name not in g:
                raise Violation(f"block {name} not in region {stack[-1].name if stack else 'top'}")
            blk = g[name]
            if not isinstance(blk, RegionBlock):
                return (tuple(stack), name)
            if blk.header not in blk.subregion.graph:
                raise Violation(f"region {blk.name}: header {blk.header} not inside")
            if blk.exiting not in blk.subregion.graph:
                raise Violation(f"region {blk.name}: exiting {blk.exiting} not inside")
            stack.append(blk)
            name = blk.header
            n += 1
            if n > 1000:
                raise Violation("region nesting cycle")

    def block(self, pos):
        stack, name = pos
        return self._graph(list(stack))[name]

    def goto(self, pos, target):
        stack, name = pos
        stack = list(stack)
        cur = name
        while target not in self._graph(stack):
            if not stack:
                raise Violation(f"jump from {cur} to unknown block {target}")
            reg = stack[-1]
            if cur != reg.exiting:
                raise Violation(f"{cur} leaves region {reg.name} to {target} but exiting block is {reg.exiting}")
            inner = reg.subregion.graph[reg.exiting]
            while isinstance(inner, RegionBlock):
                inner = inner.subregion.graph[inner.exiting]
            if target not in reg._jump_targets and target not in inner.backedges:
                raise Violation(f"region {reg.name} left towards {target}, declared targets {reg._jump_targets}")
            stack.pop()
            cur = reg.name
        return self.settle((tuple(stack), target))


def _key(pos):
    if isinstance(pos, tuple):
        return (tuple(r.name for r in pos[0]), pos[1])
    return pos


def check_walk(orig, walker, label=""):
    try:
        return _check_walk(orig, walker)
    except Violation as v:
        raise Violation(f"[after {label}] {v}")


def _check_walk(orig, walker):
    """Exhaustively explore product of original graph and restructured graph."""
    pos = walker.settle(walker.start())
    # run leading synthetics
    def run_synth(pos, env):
        steps = 0
        while True:
            blk = walker.block(pos)
            if not isinstance(blk, SyntheticBlock):
                return pos, env
            tgt, env = _synth_next(blk, env)
            if tgt is None:
                return None, env
            pos = walker.goto(pos, tgt)
            steps += 1
            if steps > 10000:
                raise Violation(f"endless run of synthetic blocks at {blk.name}")

    heads = [n for n in orig if not any(n in s for s in orig.values())]
    assert len(heads) == 1
    pos, env = run_synth(pos, {})
    if pos is None:
        raise Violation(f"stops before entry")
    name = walker.block(pos).name
    if name != heads[0]:
        raise Violation(f"first original block is {name}, expected {heads[0]}")
    seen = set()
    todo = deque([(pos, env)])
    nstates = 0
    while todo:
        pos, env = todo.popleft()
        k = (_key(pos), tuple(sorted(env.items())))
        if k in seen:
            continue
        seen.add(k)
        nstates += 1
        blk = walker.block(pos)
        b = blk.name
        succs = orig[b]
        jts = blk._jump_targets
        if not succs:
            # original stops here
            if len(jts) > 1:
                raise Violation(f"exit block {b} has targets {jts}")
            if jts:
                p2, e2 = run_synth(walker.goto(pos, jts[0]), env)
                if p2 is not None:
                    raise Violation(f"original stops at {b} but restructured goes on to {walker.block(p2).name}")
            continue
        if len(jts) != len(succs):
            raise Violation(f"block {b} has {len(jts)} targets {jts}, original has {succs}")
        for i, want in enumerate(succs):
            p2, e2 = run_synth(walker.goto(pos, jts[i]), env)
            if p2 is None:
                raise Violation(f"after {b}[{i}] restructured stops, original goes to {want}")
            got = walker.block(p2).name
            if got != want:
                raise Violation(f"after {b} taking successor {i} reached {got}, original reaches {want} (env {e2})")
            todo.append((p2, e2))
    return nstates


def check_all_stages(edges):
    """Run pipeline stage by stage, check both walks after each stage."""
    scfg = build(edges)
    for stage in ("join_returns", "restructure_loop", "restructure_branch"):
        getattr(scfg, stage)()
        check_walk(edges, FlatWalker(scfg), f"{stage}, walking by name")
        check_walk(edges, RegionWalker(scfg), f"{stage}, walking by region")
    return scfg
