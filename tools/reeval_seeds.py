"""Re-run every claimed quick check against every kept seeded change (scratch worktree via SA_REPO)
and refresh meta.json["detected_by"] plus seeded/TABLE.md.  Build-time tool."""
import json, os, subprocess, sys, tempfile, shutil
from concurrent.futures import ThreadPoolExecutor
ROOT = "/verif/seeded"
props = [c["property_id"] for c in json.load(open("/verif/MANIFEST.json"))["checks"]]

def sh(cmd, cwd=None, env=None):
    r = subprocess.run(cmd, shell=True, cwd=cwd, env=env, capture_output=True, text=True)
    return r.returncode, r.stdout + r.stderr

def one(sid):
    d = os.path.join(ROOT, sid)
    wt = tempfile.mkdtemp(prefix="wt_re_"); shutil.rmtree(wt)
    rc, o = sh(f"git -C /repo worktree add -q --detach {wt} HEAD")
    assert rc == 0, o
    try:
        rc, o = sh(f"git apply {d}/patch.diff", cwd=wt)
        if rc != 0:
            return sid, None
        fired = {}
        env = dict(os.environ, SA_REPO=wt, SA_NO_EVIDENCE="1")
        for p in props:
            rc, o = sh(f"./check {p} quick", cwd="/verif", env=env)
            if rc != 0:
                rules = sorted({l.split("[")[1].split("]")[0] for l in o.splitlines() if "[" in l and "]" in l and l.startswith("  numba")})
                err_rules = sorted({l.split("[")[1].split("]")[0] for l in o.splitlines() if "[" in l and "]" in l and l.startswith("ANALYSIS")})
                fired[p] = {"exit": rc, "rules": rules, "error_rules": err_rules, "first_line": next((l for l in o.splitlines() if l.startswith("  numba") or l.startswith("ANALYSIS-ERROR")), "")[:300]}
        return sid, fired
    finally:
        sh(f"git -C /repo worktree remove --force {wt}")

sids = sorted(s for s in os.listdir(ROOT) if os.path.isdir(os.path.join(ROOT, s)))
with ThreadPoolExecutor(int(os.environ.get("JOBS", "6"))) as ex:
    res = dict(ex.map(one, sids))
rows = []
for sid in sids:
    mp = os.path.join(ROOT, sid, "meta.json")
    meta = json.load(open(mp))
    if res[sid] is not None:
        meta["detected_by"] = res[sid]
        json.dump(meta, open(mp, "w"), indent=1)
    det = {k: v["rules"] for k, v in meta.get("detected_by", {}).items() if v["exit"] == 1}
    own = meta.get("property", sid.split("-")[0])
    rows.append((sid, own, meta.get("summary", "")[:150].replace("|", "/"), ", ".join(f"{k}: {'+'.join(v)}" for k, v in sorted(det.items())) or "**not detected**", "yes" if own in det else ("other property" if det else "no")))
with open(os.path.join(ROOT, "TABLE.md"), "w") as fh:
    fh.write("| seed | property | change | reported by (property: rules) | reported under its own property |\n|---|---|---|---|---|\n")
    for r in rows:
        fh.write("| " + " | ".join(r) + " |\n")
print(len(rows), "seeds;", sum(1 for r in rows if r[3] != "**not detected**"), "detected;", sum(1 for r in rows if r[4] == "yes"), "under own property")
